"""C01 Lazy chained execution equals step-by-step evaluation of the same steps.

Self-differential monitor: the ordinary lazy run of a generated program is compared with (a) the
step-by-step run in which each link runs alone on the deep-copied, fully materialised output of the
previous one, (b) regroupings into nested Flows / always-true conditionals, (c) the three access paths
results() / process() / datastream(). Links given in shapes the framework may not understand must
either take effect or be rejected with an error.
"""
import copy
import os

from vlib import boot, dsl, gen, lab

PROPERTY = 'C01'
LEVEL = 'exploration'
RULE = ('seeded typed random walk (vlib/dsl.py): 1..4 typed sources (load / iterable, 0..250 rows crossing the '
        '100-row inference sample) + 1..8 links over the built-in processors, observers and user row/rows/package '
        'callables in five shapes; each program is evaluated lazily, stepwise, in 3-5 regroupings (nested Flows, '
        'two levels, conditional(True, Flow) and factory form) and through process()/datastream(); an "alien link" '
        'family inserts objects that are not steps; distinct = program hash; non-trivial = >=2 links, >=1 row and '
        '>=2 strategies actually compared')
ASSUMPTIONS = [
    'user callables are pure apart from their visible mark; stats are not compared',
    'raw rows are compared (results(on_error=None)); result-time validation is C02/C14 territory',
    'the step-by-step reference deep-copies between steps by design',
    'a link in a callable shape the framework rejects with an error is an accepted outcome',
]
REQUIRED_COUNTERS = ['strategies_compared', 'stepwise_runs']
CASE_TIMEOUT = 180


def gen_cases(tier, seed):
    n = {'quick': 420, 'thorough': 12000}[tier]
    for i in range(n):
        fam = 'program' if i % 6 else 'alien'
        if i % 6 == 1:
            fam = 'alias'
        yield {'family': fam, 'idx': i, 'seed': seed}
    # one step OBJECT at two positions of the sequence (check = validate(); Flow(data, check, double, check))
    for i in range({'quick': 16, 'thorough': 160}[tier]):
        yield {'family': 'repeated_step', 'idx': 2 * 10 ** 6 + i, 'seed': seed}
    # steps that compute under context-local settings of the caller (decimal precision) in front of a step that moves
    # the upstream into a helper thread (parallelize)
    for i in range({'quick': 3, 'thorough': 12}[tier]):
        yield {'family': 'caller_context', 'idx': 3 * 10 ** 6 + i, 'seed': seed}
    # steps that compute with Decimals next to other steps, under the DEFAULT context: a step must not leave its own
    # context settings in force while it is suspended between two rows
    for i in range({'quick': 4, 'thorough': 16}[tier]):
        yield {'family': 'neighbour_context', 'idx': 4 * 10 ** 6 + i, 'seed': seed}
    # field-level steps over resources with DIFFERENT fields, followed by a step that takes hold of all the resource
    # streams before it reads any (to walk them side by side)
    for i in range({'quick': 24, 'thorough': 400}[tier]):
        yield {'family': 'held_streams', 'idx': 5 * 10 ** 6 + i, 'seed': seed}
    # a step that keeps rows for later (duplicate to the end, with / without spill batches) followed by a consumer that
    # stops reading early: chained lazily or evaluated one link at a time, the kept copy is complete
    for i in range({'quick': 8, 'thorough': 48}[tier]):
        yield {'family': 'keeper_then_early_stop', 'idx': 6 * 10 ** 6 + i, 'seed': seed}
    # the same rejection of alien links with assertions disabled (python -O)
    yield {'family': 'alien_optimized', 'idx': 10 ** 6, 'seed': seed}


ALIEN_O_SCRIPT = r'''
import functools, json, sys
import dataflows as d
assert sys.flags.optimize >= 1


class H:
    def row(self, row):
        row['a'] += 1


def bump(row):
    row['a'] += 1


KINDS = {'int': 5, 'none': None, 'object': object(), 'class': dict, 'fn_wrong_param': (lambda x: x),
         'fn_two_params': (lambda row, extra: row), 'bound_method': H().row,
         'partial': functools.partial(lambda extra, row: bump(row), 0), 'float': 1.5,
         'string': 'not a step', 'dict': {'a': 1}, 'list_of_scalars': [1, 2, 3], 'mixed_rows': [{'a': 1}, [2], 'x']}
ITEMS = {'string': 10, 'dict': 1, 'list_of_scalars': 3, 'mixed_rows': 3}
out = {}
plain = d.Flow([{'a': 1}, {'a': 2}], bump).results()[0]
for k, link in KINDS.items():
    for pos in (1, 2):
        steps = [[{'a': 1}, {'a': 2}], bump]
        steps.insert(pos, link)
        try:
            got = d.Flow(*steps).results()[0]
            out['%s@%d' % (k, pos)] = 'skipped' if got == plain else 'effect'
            if k in ITEMS and got != plain and sum(len(r) for r in got) - 2 < ITEMS[k]:
                out['%s@%d' % (k, pos)] = 'items_dropped'
        except Exception as e:
            out['%s@%d' % (k, pos)] = 'rejected:' + type(getattr(e, 'cause', e)).__name__
print('RESULT ' + json.dumps(out))
'''


def run_alien_optimized(case):
    import json
    import subprocess
    counters = {'strategies_compared': 0, 'links_rejected': 0}
    cov = {'callable_shape': {}}
    viol = []
    env = dict(os.environ, PYTHONPATH=boot.REPO, PYTHONOPTIMIZE='')
    try:
        p = subprocess.run([boot.PY, '-O', '-W', 'ignore', '-c', ALIEN_O_SCRIPT], capture_output=True, text=True,
                           timeout=150, env=env, cwd=os.getcwd())
    except subprocess.TimeoutExpired:
        return dict(nontrivial=False, violations=[], cov=cov, counters=counters, inconclusive='python -O run timed out')
    line = next((ln for ln in p.stdout.splitlines() if ln.startswith('RESULT ')), None)
    if line is None:
        return dict(nontrivial=False, violations=[], cov=cov, counters=counters,
                    inconclusive='python -O run gave no result: %s' % (p.stderr[-300:],))
    res = json.loads(line[7:])
    for k, v in sorted(res.items()):
        counters['strategies_compared'] += 1
        cov['callable_shape']['alien_optimized/' + k.split('@')[0]] = 1
        if v.startswith('rejected'):
            counters['links_rejected'] += 1
        elif v == 'items_dropped':
            viol.append({'kind': 'link_silently_skipped', 'mech': 'silently_skipped/python_O/iterable_items_dropped',
                         'msg': 'with assertions disabled (python -O) an iterable of kind %s was accepted as a source but its '
                         'items did not become rows' % k})
        elif v == 'skipped':
            kind = k.split('@')[0]
            viol.append({'kind': 'link_silently_skipped', 'mech': 'silently_skipped/python_O/' +
                         ('callable' if kind in ('bound_method', 'partial') else 'non_step'),
                         'msg': 'with assertions disabled (python -O) a link of kind %s was accepted and had no effect' % k})
    return dict(nontrivial=True, violations=viol, cov=cov, counters=counters, sample={'python_O': res})


LATE_KEYS = ('bytes', 'hash', 'count_of_rows')
ITERABLE_ITEMS = {'string': 10, 'dict': 1, 'list_of_scalars': 3, 'mixed_rows': 3}


def strip_late(desc):
    """Dumpers fill bytes/hash/count_of_rows into their descriptor while the stream is consumed; steps
    downstream hold a copy taken at package time. These late-filled properties are compared on their own
    (Outcome.late; a difference is the recorded finding 'dumper-late-counters-not-downstream'), so that every
    OTHER difference between two evaluation strategies is still reported."""
    desc = copy.deepcopy(desc)
    for k in LATE_KEYS:
        desc.pop(k, None)
    for r in desc.get('resources', []):
        for k in LATE_KEYS:
            r.pop(k, None)
    return desc


class Outcome(tuple):
    """(descriptor without the late-filled counters, rows) + .late = those counters per resource"""
    late = None


def outcome(desc, rows):
    o = Outcome((strip_late(desc), rows))
    o.late = {r.get('name'): {k: r[k] for k in LATE_KEYS if k in r} for r in desc.get('resources', [])}
    o.late[None] = {k: desc[k] for k in LATE_KEYS if k in desc}
    return o


def materialise(ds, keep_late=False):
    import json
    rows = [list(r) for r in ds.res_iter]
    # a descriptor is a JSON document: the round trip also breaks any aliasing between its parts (two resources
    # sharing one field dict survive copy.deepcopy as shared objects)
    if keep_late:
        return json.loads(json.dumps(ds.dp.descriptor)), rows
    return json.loads(json.dumps(strip_late(ds.dp.descriptor))), rows


def run_stepwise(builders):
    """Each link alone on the deep-copied materialised output of the previous one."""
    d = lab.df()
    from datapackage import Package
    desc, rows = {'resources': []}, []
    first = True
    for b in builders:
        step = b()
        user = getattr(b, 'user', None)
        if user is not None and not first:
            # row / rows user callables are applied by the harness itself (independent of the
            # library's row_processor / rows_processor helpers): "the link takes effect"
            kind, fn = user
            new_rows = []
            for r in rows:
                r = [copy.deepcopy(row) for row in r]
                if kind == 'row':
                    out = []
                    for row in r:
                        ret = fn(row)
                        out.append(row if ret is None else ret)
                    new_rows.append(out)
                else:
                    new_rows.append(list(fn(iter(r))))
            rows = new_rows
            continue
        if first:
            ds_in = None
        else:
            pkg = Package(copy.deepcopy(desc))
            # value semantics: every row is copied on its own, so nested values shared BETWEEN rows do not stay shared
            ds_in = d.DataStream(pkg, [d.ResourceWrapper(res, iter([copy.deepcopy(row) for row in r]))
                                       for res, r in zip(pkg.resources, rows)], [])
        with boot.quiet():
            ds_out = d.Flow(step).datastream(ds_in)
            # "the fully materialised output of the previous step": what a dumper recorded is part of it
            desc, rows = materialise(ds_out, keep_late=True)
        first = False
    return outcome(desc, rows)


def diff(a, b):
    """(desc, rows) vs (desc, rows) -> description of the first difference or None."""
    da, ra = a
    db, rb = b
    if da != db:
        na, nb = [r['name'] for r in da.get('resources', [])], [r['name'] for r in db.get('resources', [])]
        if na != nb:
            return 'resource names %r vs %r' % (na, nb)
        for x, y in zip(da['resources'], db['resources']):
            if x != y:
                return 'descriptor of %s: %r vs %r' % (x['name'], x, y)
        return 'package descriptor %r vs %r' % ({k: v for k, v in da.items() if k != 'resources'},
                                                {k: v for k, v in db.items() if k != 'resources'})
    if len(ra) != len(rb):
        return '%d row streams vs %d' % (len(ra), len(rb))
    for i, (x, y) in enumerate(zip(ra, rb)):
        dd = lab.rows_diff(x, y, limit=1)
        if dd:
            return 'resource #%d (%s): %s' % (i, da['resources'][i]['name'] if i < len(da['resources']) else '?', dd[0])
    return None


def observers_diff(e1, e2, ignore_late=False):
    """What dumpers / stream / printer persisted must not depend on the evaluation strategy."""
    import json
    import os

    def stream_text(t):
        if not ignore_late:
            return t
        head, _, rest = t.partition('\n')
        try:
            return json.dumps(strip_late(json.loads(head)), sort_keys=True) + '\n' + rest
        except Exception:
            return t
    for d1, d2 in zip(e1.dump_dirs, e2.dump_dirs):
        try:
            j1 = json.load(open(os.path.join(d1, 'datapackage.json')))
            j2 = json.load(open(os.path.join(d2, 'datapackage.json')))
        except Exception as e:
            return 'dump descriptor unreadable: %s' % e
        if ignore_late:
            # (a dumper overwrites the counters with its own: only what it inherited from an earlier dumper can differ)
            j1, j2 = strip_late(j1), strip_late(j2)
        if j1 != j2:
            for a, b in zip(j1.get('resources', []), j2.get('resources', [])):
                if a != b:
                    return 'dumped descriptor of %s: %r vs %r' % (a.get('name'), a, b)
            return 'dumped descriptor differs: %r vs %r' % (j1, j2)
        for r in j1.get('resources', []):
            b1 = open(os.path.join(d1, r['path']), 'rb').read()
            b2 = open(os.path.join(d2, r['path']), 'rb').read()
            if b1 != b2:
                return 'dumped file %s differs' % r['path']
    import zipfile
    for z1, z2 in zip(e1.zips, e2.zips):
        try:
            a, b = zipfile.ZipFile(z1), zipfile.ZipFile(z2)
            if sorted(a.namelist()) != sorted(b.namelist()):
                return 'zip members differ: %r vs %r' % (a.namelist(), b.namelist())
            for n in a.namelist():
                if a.read(n) != b.read(n):
                    if ignore_late and n == 'datapackage.json' and \
                            strip_late(json.loads(a.read(n))) == strip_late(json.loads(b.read(n))):
                        continue
                    return 'zip member %s differs' % n
        except Exception as e:
            return 'zip unreadable: %s' % e
    for k in e1.streams:
        if k in e2.streams and stream_text(e1.streams[k].getvalue()) != stream_text(e2.streams[k].getvalue()):
            return 'stream %s text differs' % k
    for k in e1.printers:
        if k in e2.printers and e1.printers[k] != e2.printers[k]:
            return 'output of printer %s differs: headers %r vs %r' % (k, e1.printers[k]['headers'],
                                                                      e2.printers[k]['headers'])
    return None


def groupings(rng, n):
    """Partitions of n links into consecutive groups; each group later becomes a nested Flow."""
    out = [[[i] for i in range(n)], [list(range(n))]]
    for _ in range(3):
        cuts = sorted(rng.sample(range(1, n), min(n - 1, rng.randint(1, 3)))) if n > 1 else []
        g, prev = [], 0
        for c in cuts + [n]:
            g.append(list(range(prev, c)))
            prev = c
        out.append(g)
    return out


def _keep_small(row):
    return row['n'] is None or row['n'] < 10 ** 9


REPEATABLE = {
    'validate': lambda d: d.validate(),
    'set_type': lambda d: d.set_type('n', type='number'),      # (resources=-1: the last resource at ITS position)
    'sort_rows': lambda d: d.sort_rows('{id}'),
    'filter_rows': lambda d: d.filter_rows(condition=_keep_small),
    'find_replace': lambda d: d.find_replace([{'name': 's', 'patterns': [{'find': 'zzz+', 'replace': 'z'}]}]),
    'set_primary_key': lambda d: d.set_primary_key(['id']),
    'update_resource': lambda d: d.update_resource(None, title='T'),
    'update_package': lambda d: d.update_package(title='P'),
    'printer': lambda d: d.printer(header_print=lambda *a, **k: None, table_print=lambda *a, **k: None),
}


def run_repeated_step(case):
    rng = boot.rng(case['seed'], 'C01', 'repeated', case['idx'])
    d = lab.df()
    counters = {'strategies_compared': 0, 'stepwise_runs': 0, 'links_rejected': 0}
    viol = []
    op = sorted(REPEATABLE)[case['idx'] % len(REPEATABLE)]
    tables = dsl.initial_tables(rng, nres=rng.choice([1, 2]), sizes=(1, 3, 101))
    middle = rng.choice(['row_function', 'other_step', 'nothing', 'new_source', 'new_source'])

    def mid():
        if middle == 'row_function':
            return [dsl.make_callable('u_bump_n', 'function')]
        if middle == 'other_step':
            return [d.update_package(note='x')]
        if middle == 'new_source':
            # a further resource arrives between the two positions: the second occurrence works on another package
            extra = dict(tables[0], name='extra', rows=[dict(r) for r in tables[0]['rows'][:5]])
            return [dsl.build_source(extra)]
        return []

    # how the links are grouped into nested Flows means nothing: stages that each end with the step, stages grouped into
    # a Flow of their own
    grouping = boot.rng(case['seed'], 'C01', 'grouping', case['idx']).choice(['flat', 'flat', 'stages', 'stages_grouped'])

    def run(shared):
        first = REPEATABLE[op](d)
        second = first if shared else REPEATABLE[op](d)
        steps = [dsl.build_source(t) for t in tables] + [first] + mid() + [second]
        if shared and grouping != 'flat':
            stages = [d.Flow(first), d.Flow(*(mid() + [second]))]
            steps = [dsl.build_source(t) for t in tables] + (stages if grouping == 'stages' else [d.Flow(*stages)])
        with boot.quiet():
            results, dp, _ = d.Flow(*steps).results(on_error=None)
        return outcome(dp.descriptor, results)
    ref = run(False)
    try:
        got = run(True)
        counters['strategies_compared'] += 1
        dd = diff(ref, got)
        if dd:
            viol.append({'kind': 'repeated_step_object', 'mech': 'repeated_step_object/differs',
                         'msg': 'one %s object at two positions (%s between, grouping %s) gives a different outcome than two equal '
                         'objects: %s' % (op, middle, grouping, dd[:400])})
    except Exception as e:
        c = getattr(e, 'cause', e)
        if isinstance(c, (ValueError, AssertionError)) and 'more than once' in str(c):
            counters['links_rejected'] += 1     # refused with a clear error naming the reuse: accepted
        else:
            viol.append({'kind': 'repeated_step_object', 'mech': 'repeated_step_object/failed',
                         'msg': 'one %s object at two positions (%s between, grouping %s): the chained run fails with %s: %s although '
                         'every link is a valid step and the same links evaluated one at a time succeed'
                         % (op, middle, grouping, type(c).__name__, str(c)[:200])})
    return dict(nontrivial=True, violations=viol, counters=counters,
                cov={'op_x_position': {}, 'callable_shape': {}, 'strategy': {'repeated_step_object/%s/%s' % (op, middle): 1,
                                                                             'repeated_step_object/grouping/' + grouping: 1}},
                sample={'repeated': op, 'between': middle, 'grouping': grouping})


def _ratio(row):
    return row['a'] / row['b']


def _touch(row):
    row['seen'] = True


def run_caller_context(case):
    import decimal
    rng = boot.rng(case['seed'], 'C01', 'context', case['idx'])
    d = lab.df()
    counters = {'strategies_compared': 0, 'stepwise_runs': 0, 'links_rejected': 0}
    viol = []
    n = rng.choice([5, 40])
    prec = rng.choice([6, 40])
    rows = [{'id': i, 'a': decimal.Decimal(i + 1), 'b': decimal.Decimal(7), 'seen': False} for i in range(n)]
    F = [{'name': 'id', 'type': 'integer'}, {'name': 'a', 'type': 'number'}, {'name': 'b', 'type': 'number'},
         {'name': 'seen', 'type': 'boolean'}]
    bs = [lambda: lab.source('t', F, rows),
          lambda: d.add_computed_field([{'target': {'name': 'q', 'type': 'number'}, 'operation': _ratio}]),
          lambda: d.parallelize(_touch, num_processors=rng.choice([1, 2]))]
    with decimal.localcontext() as ctx:
        ctx.prec = prec
        with boot.quiet():
            results, dp, _ = d.Flow(*[b() for b in bs]).results(on_error=None)
        base = outcome(dp.descriptor, [sorted(r, key=lambda x: x['id']) for r in results])
        sw = run_stepwise(bs)
        sw = Outcome((sw[0], [sorted(r, key=lambda x: x['id']) for r in sw[1]]))
    counters['stepwise_runs'] += 1
    counters['strategies_compared'] += 1
    with lab.exact_decimals():
        dd = diff(base, sw)
    if dd:
        viol.append({'kind': 'lazy_vs_stepwise', 'mech': 'lazy_vs_stepwise/caller_context',
                     'msg': 'decimal precision %d set by the caller, a computed field in front of parallelize: lazy != '
                     'step-by-step: %s' % (prec, dd[:500])})
    return dict(nontrivial=True, violations=viol, counters=counters,
                cov={'op_x_position': {}, 'callable_shape': {}, 'strategy': {'caller_context/prec%d' % prec: 1}},
                sample={'rows': n, 'precision': prec})


def _third(row):
    row['r'] = row['a'] / row['b']


def run_neighbour_context(case):
    import decimal
    rng = boot.rng(case['seed'], 'C01', 'neighbour', case['idx'])
    d = lab.df()
    counters = {'strategies_compared': 0, 'stepwise_runs': 0, 'links_rejected': 0}
    viol = []
    n = rng.choice([3, 30])
    rows = [{'id': i, 'a': decimal.Decimal(i + 4), 'b': decimal.Decimal(3), 'r': None} for i in range(n)]
    F = [{'name': 'id', 'type': 'integer'}, {'name': 'a', 'type': 'number'}, {'name': 'b', 'type': 'number'},
         {'name': 'r', 'type': 'number'}]
    op_ = rng.choice(['sum', 'avg', 'max'])
    computed = lambda: d.add_computed_field([{'target': 'tot', 'operation': op_, 'source': ['a', 'b']}])   # noqa: E731
    order = rng.choice(['computed_first', 'computed_last', 'both_sides'])
    mid = [lambda: _third]
    bs = [lambda: lab.source('t', F, rows)] + {'computed_first': [computed] + mid, 'computed_last': mid + [computed],
                                               'both_sides': [computed] + mid + [lambda: d.set_type('r', type='number')]}[order]
    with boot.quiet():
        results, dp, _ = d.Flow(*[b() for b in bs]).results(on_error=None)
    base = outcome(dp.descriptor, results)
    sw = run_stepwise(bs)
    counters['stepwise_runs'] += 1
    counters['strategies_compared'] += 1
    with lab.exact_decimals():
        dd = diff(base, sw)
    if dd:
        viol.append({'kind': 'lazy_vs_stepwise', 'mech': 'lazy_vs_stepwise/neighbour_context',
                     'msg': 'a row step dividing Decimals next to add_computed_field (%s): lazy != step-by-step: %s'
                     % (order, dd[:500])})
    return dict(nontrivial=True, violations=viol, counters=counters,
                cov={'op_x_position': {}, 'callable_shape': {}, 'strategy': {'neighbour_context/%s' % order: 1}},
                sample={'rows': n, 'order': order})


HELD_OPS = ['add_field', 'delete_fields', 'select_fields', 'rename_fields', 'add_computed_field', 'find_replace',
            'set_type', 'validate', 'filter_rows', 'update_resource', 'update_schema']


def run_held_streams(case):
    rng = boot.rng(case['seed'], 'C01', 'held', case['idx'])
    d = lab.df()
    counters = {'strategies_compared': 0, 'stepwise_runs': 0, 'links_rejected': 0}
    viol = []
    tables = dsl.initial_tables(rng, nres=rng.choice([2, 3]), sizes=(1, 3, 7))
    tables, specs, _ = dsl.gen_program(rng, length=rng.randint(1, 3), ops=HELD_OPS, tables=tables)
    specs = [dict(sp, form='function') if sp['op'] == 'user' else sp for sp in specs]
    prog = dsl.render(tables, specs)

    def steps(tag):
        env = dsl.Env(tag)
        return [dsl.build_source(t) for t in tables] + [dsl.OPS[sp['op']].build(sp, env) for sp in specs]

    def hold(package):
        yield package.pkg
        held = []
        streams = list(package)             # all streams taken first ...
        for st in reversed(streams):        # ... and read last one first
            held.append(list(st))
        for rows_ in reversed(held):
            yield iter(rows_)
    try:
        with boot.quiet():
            r1, dp1, _ = d.Flow(*steps('plain')).results(on_error=None)
    except Exception:
        return dict(nontrivial=False, violations=[], counters=counters, cov={'op_x_position': {}, 'callable_shape': {}, 'strategy': {}})
    base = outcome(dp1.descriptor, r1)
    try:
        with boot.quiet():
            r2, dp2, _ = d.Flow(*(steps('held') + [hold])).results(on_error=None)
        counters['strategies_compared'] += 1
        dd = diff(base, outcome(dp2.descriptor, r2))
        if dd:
            viol.append({'kind': 'held_streams', 'mech': 'held_streams/differs', 'program': prog,
                         'msg': 'a later step that takes all resource streams before reading them (last one first) changes '
                         'the rows: %s; program %s' % (dd[:400], gen.render(prog, 900))})
    except Exception as e:
        c = getattr(e, 'cause', e)
        viol.append({'kind': 'held_streams', 'mech': 'held_streams/failed', 'program': prog,
                     'msg': 'a later step that takes all resource streams before reading them makes the run fail: %s: %s; '
                     'program %s' % (type(c).__name__, str(c)[:200], gen.render(prog, 900))})
    return dict(nontrivial=True, violations=viol, counters=counters,
                cov={'op_x_position': {'%s@held' % sp['op']: 1 for sp in specs}, 'callable_shape': {},
                     'strategy': {'held_streams': 1}}, sample={'program': prog})


def run_case(case):
    if case['family'] == 'alien_optimized':
        return run_alien_optimized(case)
    if case['family'] == 'neighbour_context':
        return run_neighbour_context(case)
    if case['family'] == 'held_streams':
        return run_held_streams(case)
    if case['family'] == 'caller_context':
        return run_caller_context(case)
    if case['family'] == 'repeated_step':
        return run_repeated_step(case)
    fam = case['family']
    rng = boot.rng(case['seed'], 'C01', case['idx'])
    d = lab.df()
    counters = {'strategies_compared': 0, 'stepwise_runs': 0, 'links_rejected': 0}
    cov = {'op_x_position': {}, 'callable_shape': {}, 'strategy': {}}
    viol = []
    if fam == 'alias':
        # mutating steps right after row-retaining steps, applied to a subset of the resources
        tables = dsl.initial_tables(rng, nres=rng.choice([1, 2]), sizes=(1, 3, 101))
        keepers = ['duplicate', 'join', 'sort_rows', 'dump_to_path', 'stream', 'checkpoint', 'unpivot', 'concatenate']
        mutators = ['add_field', 'set_type', 'find_replace', 'add_computed_field', 'user', 'rename_fields',
                    'delete_fields']
        t1, s1, sh = dsl.gen_program(rng, length=rng.randint(1, 2), ops=keepers, tables=tables)
        _, s2, _ = dsl.gen_program(rng, length=rng.randint(1, 3), ops=mutators,
                                   tables=[{'name': r['name'], 'fields': r['fields'], 'rows': [], 'kind': 'load'}
                                           for r in (sh[-1] if sh else dsl.source_shape(tables))])
        specs = s1 + s2
        if rng.random() < 0.25 and not any('arr' in [f[0] for f in t['fields']] for t in tables):
            # a constant mutable value given to every row, then edited in place row by row
            names_now = [r['name'] for r in (sh[-1] if sh else dsl.source_shape(tables))]
            specs = s1 + [{'op': 'add_field', 'res': names_now, 'sel': None, 'name': 'arr', 'type': 'array',
                           'default': [1]},
                          {'op': 'user', 'fn': 'u_arr_append', 'form': 'function'}] + \
                [x for x in s2 if x['op'] not in ('add_field',)]
        elif rng.random() < 0.6:
            # nested cell values edited in place after a row-retaining step
            for t in tables:
                if 'arr' not in [f[0] for f in t['fields']]:
                    t['fields'].append(['arr', 'array'])
                for r in t['rows']:
                    r['arr'] = [1, ['x']]
            # (the programs were generated before every table got its 'arr' field: a step adding a field of that name
            # would now add a second one - an ill-formed program)
            s2 = [x for x in s2 if not (x['op'] == 'add_field' and x.get('name') == 'arr')]
            specs = s1 + [{'op': 'user', 'fn': 'u_arr_append', 'form': 'function'}] + s2
    elif fam == 'keeper_then_early_stop':
        tables = dsl.initial_tables(rng, nres=rng.choice([1, 2]), sizes=(3, 25, 101))
        k = case['idx'] % 8
        specs = [{'op': 'duplicate', 'res': tables[0]['name'], 'target': 'dup7', 'to_end': k % 2 == 0, 'batch': [1, 2, 1000][k % 3]},
                 {'op': 'user', 'fn': ['u_rows_first2', 'u_rows_break3'][(k // 2) % 2], 'form': 'function'}]
        if k >= 4:
            specs.insert(1, {'op': 'user', 'fn': 'u_bump_n', 'form': 'function'})
    else:
        tables, specs, _ = dsl.gen_program(rng)
    alien = None
    if fam == 'alien':
        pos = rng.randint(0, len(specs))
        kinds = {'int': 5, 'none': None, 'object': object(), 'class': dict, 'fn_wrong_param': (lambda x: x),
                 'fn_two_params': (lambda row, extra: row), 'bound_method': dsl.make_callable('u_bump_n', 'bound_method'),
                 'partial': dsl.make_callable('u_bump_n', 'partial'), 'float': 1.5,
                 # iterables that are not tables: a bare string, a mapping, scalars, rows of mixed shapes
                 'string': 'not a step', 'dict': {'a': 1}, 'list_of_scalars': [1, 2, 3],
                 'mixed_rows': [{'a': 1}, [2], 'x']}
        akind = rng.choice(sorted(kinds))
        alien = (pos, akind, kinds[akind])
        cov['callable_shape']['alien/' + akind] = 1
    for i, s in enumerate(specs):
        cov['op_x_position']['%s@%d' % (s['op'], min(i, 7))] = 1
        if s['op'] == 'user':
            cov['callable_shape']['%s/%s' % (s['form'], dsl.USER[s['fn']][0])] = 1
    prog = dsl.render(tables, specs)
    nsrc = len(tables)

    envs = {}

    def builders(tag, canonical=False):
        env = envs[tag] = dsl.Env(tag)
        bs = [(lambda t=t: dsl.build_source(t)) for t in tables]
        for s in specs:
            s2 = dict(s, form='function') if (canonical and s['op'] == 'user') else s

            def b(s2=s2):
                return dsl.OPS[s2['op']].build(s2, env)
            if canonical and s['op'] == 'user' and dsl.USER[s['fn']][0] in ('row', 'rows'):
                b.user = dsl.USER[s['fn']]
            bs.append(b)
        return bs

    def add(kind, msg, mech):
        viol.append({'kind': kind, 'mech': mech, 'msg': '%s; program %s' % (msg, gen.render(prog, 1500)),
                     'program': prog})

    def lazy(tag, via='results', group=None, cond=None):
        steps = [b() for b in builders(tag)]
        if alien is not None:
            steps.insert(nsrc + alien[0], alien[2])
        if group is not None:
            steps = [d.Flow(*[steps[i] for i in g]) if len(g) > 1 or rng.random() < 0.5 else steps[g[0]]
                     for g in group]
        if cond is not None:
            k, factory = cond
            suffix = d.Flow(*steps[k:])
            steps = steps[:k] + [d.conditional(lambda dp: True, (lambda dp: suffix) if factory else suffix)]
        with boot.quiet():
            if via == 'results':
                results, dp, _ = d.Flow(*steps).results(on_error=None)
                return outcome(dp.descriptor, results)
            if via == 'datastream':
                return materialise(d.Flow(*steps).datastream())
            collected = []

            def sink(package):
                yield package.pkg
                for res in package:
                    rows = []
                    collected.append(rows)

                    def it(res=res, rows=rows):
                        for row in res:
                            rows.append(copy.deepcopy(row))
                            yield row
                    yield it()
            dp, _ = d.Flow(*steps, sink).process()
            return strip_late(dp.descriptor), collected

    # ---- reference: lazy results() -------------------------------------------------------------
    try:
        base = lazy('L')
        base_err = None
    except Exception as e:
        base, base_err = None, e
    if alien is not None:
        pos, akind, _ = alien
        if base_err is None:
            # ran without error: the alien link must have had an effect, i.e. differ from the program without it
            saved, alien = alien, None
            try:
                without = lazy('L0')
            finally:
                alien = saved
            if diff(base, without) is None:
                add('link_silently_skipped', 'a link of kind %s at position %d was accepted and had no effect'
                    % (akind, pos), 'silently_skipped/' + ('callable' if akind in ('bound_method', 'partial') else 'non_step'))
            elif akind in ITERABLE_ITEMS:
                # an iterable that is accepted as a source takes effect with ALL its items
                extra = sum(len(r) for r in base[1]) - sum(len(r) for r in without[1])
                later_drops = any(s_['op'] in ('filter_rows', 'deduplicate', 'join', 'delete_resource', 'concatenate')
                                  or (s_['op'] == 'user' and 'first' in s_['fn'] or s_['op'] == 'user' and 'break' in s_['fn']
                                      or s_['op'] == 'user' and 'drop' in s_['fn'])
                                  for s_ in specs[pos:])
                if extra < ITERABLE_ITEMS[akind] and not later_drops and len(base[1]) > len(without[1]):
                    add('link_silently_skipped', 'an iterable of kind %s (%d items) at position %d was accepted as a source but '
                        'only %d of its items became rows' % (akind, ITERABLE_ITEMS[akind], pos, extra),
                        'silently_skipped/iterable_items_dropped')
        else:
            counters['links_rejected'] += 1
        counters['strategies_compared'] += 1
        return dict(nontrivial=len(specs) + nsrc >= 2, violations=viol, cov=cov, counters=counters,
                    sample={'program': prog, 'alien': [pos, akind]})
    nonfn = [s for s in specs if s['op'] == 'user' and s['form'] != 'function']
    if base_err is not None:
        c = getattr(base_err, 'cause', base_err)
        if nonfn and isinstance(c, (AssertionError, TypeError, ValueError)):
            counters['links_rejected'] += 1     # rejected with an error: accepted outcome
            return dict(nontrivial=False, violations=viol, cov=cov, counters=counters)
        add('lazy_failed', 'lazy run failed: %s: %s' % (type(c).__name__, str(c)[:300]),
            'lazy_failed/%s' % type(c).__name__)
        return dict(nontrivial=False, violations=viol, cov=cov, counters=counters)
    nrows = sum(len(r) for r in base[1])
    # ---- (a) stepwise, user callables in canonical function form (= every link takes effect) ---
    try:
        sw = run_stepwise(builders('S', canonical=True))
        counters['stepwise_runs'] += 1
        dd = diff(base, sw)
        counters['strategies_compared'] += 1
        cov['strategy']['stepwise'] = 1
        if dd:
            mech = 'lazy_vs_stepwise'
            if nonfn:
                # is it only because a non-function callable was skipped?
                sw2 = run_stepwise(builders('S2', canonical=False))
                if diff(base, sw2) is None:
                    mech = 'silently_skipped/callable'
            ops = [s['op'] for s in specs]
            if mech == 'lazy_vs_stepwise' and 'duplicate' in ops:
                mech = 'lazy_vs_stepwise/after_duplicate'
            add('lazy_vs_stepwise', 'lazy != step-by-step: %s' % dd[:600], mech)
        else:
            if base.late != sw.late:
                # what a dumper records while the rows pass (count_of_rows / bytes / hash) reaches the steps after it only
                # when they run on its finished output
                n_ = next(k for k in sw.late if sw.late.get(k) != base.late.get(k))
                add('late_descriptor_properties', 'resource %r: step by step the final descriptor carries %r, chained %r'
                    % (n_, sw.late.get(n_), base.late.get(n_)), 'dumper-late-counters-not-downstream')
            od = observers_diff(envs['L'], envs['S'])
            if od:
                late_only = observers_diff(envs['L'], envs['S'], ignore_late=True) is None
                add('observer_content', 'an observer persisted different content in the lazy and the '
                    'step-by-step run: %s%s' % (od[:600], ' (only the counters recorded by an earlier dumper differ)'
                                               if late_only else ''),
                    'dumper-late-counters-not-downstream' if late_only else 'observer_content')
    except Exception as e:
        c = getattr(e, 'cause', e)
        add('stepwise_failed', 'step-by-step run failed although the lazy run succeeded: %s: %s'
            % (type(c).__name__, str(c)[:300]), 'stepwise_failed/%s' % type(c).__name__)
    # ---- (b) regroupings ------------------------------------------------------------------------
    total = nsrc + len(specs)
    gs = groupings(rng, total)
    for gi, g in enumerate(gs):
        try:
            alt = lazy('G%d' % gi, group=g)
        except Exception as e:
            c = getattr(e, 'cause', e)
            add('regrouped_failed', 'grouping %r failed: %s: %s' % (g, type(c).__name__, str(c)[:300]),
                'regrouped_failed')
            continue
        counters['strategies_compared'] += 1
        cov['strategy']['nested'] = 1
        dd = diff(base, alt)
        if dd:
            add('grouping', 'grouping %r changes the outcome: %s' % (g, dd[:600]), 'grouping')
            break
    # two-level nesting: Flow(Flow(Flow(first half)), rest)
    if total >= 2:
        k = rng.randint(1, total - 1)
        for factory in (False, True):
            try:
                alt = lazy('C%d' % factory, cond=(k, factory))
                counters['strategies_compared'] += 1
                cov['strategy']['conditional' + ('_factory' if factory else '')] = 1
                dd = diff(base, alt)
                if dd:
                    add('conditional', 'conditional(True, %sFlow(suffix@%d)) changes the outcome: %s'
                        % ('lambda: ' if factory else '', k, dd[:600]), 'conditional')
            except Exception as e:
                c = getattr(e, 'cause', e)
                add('conditional_failed', 'conditional wrapping at %d failed: %s: %s' % (k, type(c).__name__, str(c)[:300]),
                    'conditional_failed')
    # ---- (c) access paths -----------------------------------------------------------------------
    for via in ('datastream', 'process'):
        try:
            alt = lazy('V' + via, via=via)
            counters['strategies_compared'] += 1
            cov['strategy'][via] = 1
            dd = diff(base, alt)
            if dd:
                add('access_path', '%s() differs from results(): %s' % (via, dd[:600]), 'access_path/' + via)
        except Exception as e:
            c = getattr(e, 'cause', e)
            add('access_path_failed', '%s() failed: %s: %s' % (via, type(c).__name__, str(c)[:300]),
                'access_path_failed/' + via)
    # process() of a flow whose LAST link is an always-true conditional: the package it returns is the package
    if total >= 2:
        try:
            steps_ = [b() for b in builders('PC')]
            k_ = rng.randint(1, total - 1)
            suffix_ = d.Flow(*steps_[k_:])
            with boot.quiet():
                ret = d.Flow(*(steps_[:k_] + [d.conditional(lambda dp: True, suffix_)])).process()
            counters['strategies_compared'] += 1
            cov['strategy']['process_ending_in_conditional'] = 1
            dp_ = ret[0] if isinstance(ret, tuple) else ret
            desc_ = getattr(dp_, 'descriptor', None)
            if desc_ is None or strip_late(desc_) != base[0]:
                add('access_path', 'process() of the flow ending in conditional(True, Flow(suffix@%d)) returns the package %s'
                    % (k_, 'None' if desc_ is None else 'with another descriptor than results()'), 'access_path/process_conditional')
        except Exception as e:
            c = getattr(e, 'cause', e)
            add('access_path_failed', 'process() of the flow ending in a conditional failed: %s: %s'
                % (type(c).__name__, str(c)[:300]), 'access_path_failed/process_conditional')
    nontrivial = total >= 2 and nrows >= 1 and counters['strategies_compared'] >= 2
    return dict(nontrivial=nontrivial, violations=viol, cov=cov, counters=counters, sample={'program': prog})
