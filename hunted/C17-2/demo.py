"""C17: unpivot derives wrong key values when the field-name regex can also match a PART of the name.

unpivot selects the fields to unpivot with `re.fullmatch(name_regex, field_name)` but derives the
key values with `re.sub(name_regex, template, field_name)`, i.e. with a left-to-right SEARCH that
replaces every (possibly shorter, possibly empty) occurrence.  For regexes that can match the empty
string at the end of the name ('.*', '(.*)', '[0-9]*' ...) the template - even a CONSTANT key - is
inserted twice; for alternations / lazy groups a shorter match is substituted and the rest of the
field name leaks into the key.
"""
import re
import sys

from dataflows import Flow, unpivot

failed = False


def reference(rows, field_names, unpivot_fields, extra_keys, extra_value):
    """The property's reading: for each row, for each spec, for each field the spec's regex matches
    in full (schema order): kept fields + keys (template expanded against THAT full match) + value."""
    remaining = list(field_names)
    selected = []
    for spec in unpivot_fields:
        rx = re.compile(spec['name'])
        for name in list(remaining):
            m = rx.fullmatch(name)
            if m is not None:
                remaining.remove(name)
                keys = {k: (m.expand(v) if isinstance(v, str) else v) for k, v in spec['keys'].items()}
                selected.append((name, keys))
    out = []
    for row in rows:
        for name, keys in selected:
            new = dict((k, row[k]) for k in remaining)
            new.update(keys)
            new[extra_value['name']] = row[name]
            out.append(new)
    return out


def check(title, rows, unpivot_fields, extra_keys, extra_value):
    global failed
    field_names = list(rows[0].keys())
    expected = reference(rows, field_names, unpivot_fields, extra_keys, extra_value)
    try:
        observed = Flow(rows, unpivot(unpivot_fields, extra_keys, extra_value)).results()[0][0]
        observed = [dict(r) for r in observed]
    except Exception as e:
        observed = 'exception: %r' % (e,)
    ok = observed == expected
    failed = failed or not ok
    print('--- ' + title)
    print('spec    :', unpivot_fields)
    print('expected:', expected)
    print('observed:', observed)
    print('OK' if ok else 'VIOLATION')


# 1. "everything" regex + a CONSTANT key: the constant is emitted twice ('surveysurvey')
check('constant key, name regex ".*"',
      [{'height': 180, 'weight': 75}],
      [{'name': '.*', 'keys': {'variable': r'\g<0>', 'source': 'survey'}}],
      [{'name': 'variable', 'type': 'string'}, {'name': 'source', 'type': 'string'}],
      {'name': 'value', 'type': 'integer'})

# 2. "every field but id" + back-reference with a prefix: 'col:heightcol:'
check('back-reference, name regex "(?!id$)(.*)"',
      [{'id': 1, 'height': 180, 'weight': 75}],
      [{'name': '(?!id$)(.*)', 'keys': {'variable': r'col:\1'}}],
      [{'name': 'variable', 'type': 'string'}],
      {'name': 'value', 'type': 'integer'})

# 3. alternation where one alternative is a prefix of another: '<total>_m' instead of '<total_m>'
check('back-reference, name regex "total|total_m|total_f"',
      [{'region': 'north', 'total': 10, 'total_m': 4, 'total_f': 6}],
      [{'name': 'total|total_m|total_f', 'keys': {'series': r'<\g<0>>'}}],
      [{'name': 'series', 'type': 'string'}],
      {'name': 'value', 'type': 'integer'})

# 4. lazy group: fullmatch gives ('pop', '2000'), re.sub matches only 'pop_2' -> 'pop000'
check('back-references, name regex "([a-z]+?)_([0-9]+?)"',
      [{'region': 'north', 'pop_2000': 1, 'gdp_2001': 2}],
      [{'name': '([a-z]+?)_([0-9]+?)', 'keys': {'measure': r'\1', 'year': r'\2'}}],
      [{'name': 'measure', 'type': 'string'}, {'name': 'year', 'type': 'string'}],
      {'name': 'value', 'type': 'integer'})

sys.exit(1 if failed else 0)
