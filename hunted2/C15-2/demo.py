"""C15: rename_fields / delete_fields / select_fields and a schema's foreignKeys.

A Table Schema may declare foreignKeys; their 'fields' name fields of the resource itself
(exactly like primaryKey).  The field-level steps keep primaryKey in step with the fields
they rename / remove, but leave foreignKeys alone: afterwards the schema names a field that
no longer exists in the field list nor in any row - it is not a valid Table Schema any more.
"""
import sys

from dataflows import Flow, update_schema, rename_fields, delete_fields, select_fields

countries = [{'code': 'fr', 'country': 'France'}, {'code': 'de', 'country': 'Germany'}]
cities = [{'city': 'Paris', 'country_code': 'fr', 'population': 2},
          {'city': 'Berlin', 'country_code': 'de', 'population': 3}]

FK = dict(fields=['country_code'], reference=dict(resource='res_1', fields=['code']))


def run(step):
    seen = []

    def capture(package):
        yield package.pkg
        for i, res in enumerate(package):
            def it(res=res, i=i):
                for row in res:
                    if i == 1:
                        seen.append(dict(row))
                    yield row
            yield it()

    dp, _ = Flow(
        countries,
        cities,
        update_schema('res_2', primaryKey=['country_code', 'city'], foreignKeys=[dict(FK, fields=list(FK['fields']))]),
        step,
        capture,
    ).process()
    schema = dp.descriptor['resources'][1]['schema']
    names = [f['name'] for f in schema['fields']]
    return schema, names, seen, dp.resources[1].schema


def key_fields(key):
    return [key] if isinstance(key, str) else list(key)


failed = False
for title, step in [
    ("baseline: no field-level step", update_schema('res_2')),
    ("rename_fields({'country_code': 'cc'})", rename_fields({'country_code': 'cc'}, resources='res_2')),
    ("delete_fields(['country_code'])", delete_fields(['country_code'], resources='res_2')),
    ("select_fields(['city', 'population'])", select_fields(['city', 'population'], resources='res_2')),
]:
    schema, names, rows, ts_schema = run(step)
    print(title)
    print('  fields      :', names)
    print('  row keys    :', list(rows[0]))
    print('  primaryKey  :', schema.get('primaryKey'))
    print('  foreignKeys :', schema.get('foreignKeys'))
    dangling = [
        name
        for key in [schema.get('primaryKey') or []] + [fk['fields'] for fk in schema.get('foreignKeys', [])]
        for name in key_fields(key)
        if name not in names
    ]
    print('  expected    : every field named by primaryKey / foreignKeys is a declared field '
          '(key renamed along with the field, or dropped with it)')
    print('  observed    : dangling key fields %r; Table Schema valid: %r %r'
          % (dangling, ts_schema.valid, [str(e) for e in ts_schema.errors]))
    if dangling:
        failed = True

if failed:
    print('\nVIOLATION: the schema still refers to a field that the step renamed / removed from '
          'the field list and from every row')
    sys.exit(1)
print('no violation')
