"""C10: checkpoint(resources=...) accepts a resource selector ("same semantics as load's
`resources`", PROCESSORS.md) but ignores it: the resources that are NOT selected are checkpointed,
too, and on the next run they are served (stale) from the checkpoint file."""
import os
import shutil
import sys
import tempfile

from dataflows import Flow, checkpoint, update_resource

workdir = tempfile.mkdtemp(prefix='c10-checkpoint-')
cwd = os.getcwd()
os.chdir(workdir)
try:
    def flow(run, selector):
        return Flow(
            [{'id': i, 'v': 'a-run-%d' % run} for i in range(3)],
            update_resource(-1, name='a'),
            [{'id': i, 'v': 'B-MARKER-run-%d' % run} for i in range(3)],
            update_resource(-1, name='ab'),
            checkpoint('cp', resources=selector),
        )

    def names_and_values(results, dp):
        return dict(
            (res['name'], sorted(set(row['v'] for row in rows)))
            for res, rows in zip(dp.descriptor['resources'], results)
        )

    problems = []
    for selector in ('a', ['a'], 0):
        shutil.rmtree('.checkpoints', ignore_errors=True)
        # first run: only resource 'a' is selected for checkpointing ('ab' merely has 'a' as a prefix)
        results, dp, _ = flow(1, selector).results()
        stored = ''
        for base, _, files in os.walk('.checkpoints'):
            for name in files:
                with open(os.path.join(base, name)) as f:
                    stored += f.read()
        if 'B-MARKER-run-1' in stored:
            problems.append('selector %r: rows of the unselected resource "ab" were written to the checkpoint'
                            % (selector,))
        # second run: the source of 'ab' has new data; 'ab' is not checkpointed, so whatever the step
        # does with it, it cannot legitimately come from the checkpoint
        results, dp, _ = flow(2, selector).results()
        got = names_and_values(results, dp)
        print('selector %r, second run: %r' % (selector, got))
        if got.get('ab') == ['B-MARKER-run-1']:
            problems.append('selector %r: second run serves the unselected resource "ab" from the checkpoint: %r'
                            % (selector, got['ab']))

    print()
    print('EXPECTED: checkpoint(..., resources=<selector of "a">) checkpoints resource "a" only; the unselected')
    print('          resource "ab" is neither written to nor read back from the checkpoint')
    if problems:
        print('OBSERVED:')
        for p in problems:
            print('   -', p)
        sys.exit(1)
    print('OBSERVED: as expected')
finally:
    os.chdir(cwd)
    shutil.rmtree(workdir, ignore_errors=True)
