"""C18 parallelize delivers every row exactly once under every schedule.

sched-lab: the flow runs in its own process group with parallelize's mp / queue / threading rebound to
logging, delay-injecting proxies (inherited by the forked workers). The offline checker decides over
(event log, delivered rows, process table): exactly-once delivery, row function applied exactly once
to selected rows and never to the others, per-queue conservation and end-marker ordering, clean
shutdown; a quiescence detector turns "all live actors blocked in get with no event for N seconds"
into a deadlock verdict (a bare watchdog timeout is inconclusive).
"""
import json
import os
import signal
import sys
import time

from vlib import boot, gen, lab, schedlab

PROPERTY = 'C18'
LEVEL = 'exploration'
RULE = ('schedule families {none, slow producer, slow workers, straggler, slow fetcher, slow consumer, late worker '
        'start, uniform random, bursty} x workers 1..4 x predicate {none, all-true, all-false, every-3rd, only-last, '
        'first-selected-late} x lengths {0,1,2,3,17,100} (thorough: +1000, line-level yield injection) x resource '
        'selected / not selected / two resources; distinct = case hash (configuration x schedule seed); the number of '
        'distinct interleaving signatures (sequence of (actor role, operation, queue) in the merged log) and the '
        'both-way observations of racing pairs are reported separately; non-trivial = (>=2 workers or >=1 bypassed row) and >=1 '
        'selected row')
ASSUMPTIONS = [
    'schedules are sampled by perturbation: the claim is "held on R runs covering D distinct interleavings", not '
    'all interleavings',
    'a run that neither finishes nor is quiescent within the watchdog is inconclusive, not a violation',
    "multiprocessing's daemon feeder threads may linger until their queue is collected",
]
REQUIRED_COUNTERS = ['runs_checked', 'events_logged']
CASE_TIMEOUT = 300
PREDICATES = ['none', 'all_true', 'all_false', 'every_3rd', 'only_last', 'first_selected_late', 'first_occurrence',
              'truthy_not_bool']
QUIET_S = 6.0
WATCHDOG_S = 60.0


def gen_cases(tier, seed):
    lens = {'quick': [0, 1, 2, 3, 17, 100], 'thorough': [0, 1, 2, 3, 17, 100, 1000]}[tier]
    reps = {'quick': 1, 'thorough': 6}[tier]
    i = 0
    for rep in range(reps):
        for fam in schedlab.FAMILIES:
            for w in (1, 2, 3, 4):
                for pred in PREDICATES:
                    rng = boot.rng(seed, 'C18', fam, w, pred, rep)
                    for n in rng.sample(lens, 2 if tier == 'quick' else 4):
                        i += 1
                        yield {'family': fam, 'workers': w, 'pred': pred, 'n': n, 'idx': i, 'seed': seed, 'rep': rep,
                               'layout': rng.choice(['single', 'single', 'unselected_neighbour', 'two_selected']),
                               'yield_injection': tier == 'thorough' and i % 10 == 0}
    # long pauses (seconds, not milliseconds): an upstream source that stalls mid-stream, and one row whose row
    # function is slow while the other workers have long finished - timeouts / liveness heuristics inside the
    # implementation must not turn such pauses into lost rows
    pauses = {'quick': [('upstream_stall', 6.5), ('slow_row', 2.5), ('upstream_stall', 1.5), ('slow_row', 6.5)],
              'thorough': [('upstream_stall', 6.5), ('slow_row', 2.5), ('upstream_stall', 1.5), ('slow_row', 6.5),
                           ('upstream_stall', 12.0), ('slow_row', 12.0)]}[tier]
    for fam in ('slow_predicate_tail', 'slow_predicate'):
        for w in (1, 2, 3):
            for pred in ('every_3rd', 'all_false', 'first_selected_late', 'only_last'):
                for n in ((17, 100) if tier == 'quick' else (3, 17, 100, 1000)):
                    i += 1
                    yield {'family': fam, 'workers': w, 'pred': pred, 'n': n, 'idx': i, 'seed': seed, 'rep': 0,
                           'layout': 'single', 'yield_injection': False}
    # parallelize placed after a step that reads its rows back from a spilled KVFile (sort_rows over more rows than the
    # 10240-entry cache) and, as a control, after the same step without spill
    for n in (3000, 12000):
        i += 1
        yield {'family': 'after_sort', 'workers': 2, 'pred': 'none', 'n': n, 'idx': i, 'seed': seed, 'rep': 0,
               'layout': 'single', 'yield_injection': False}
    # upstream_lock: the upstream step and the row function use the same lock (two log calls into one handler): a worker
    # forked while another thread of the parent holds it never gets it.  context_local: the upstream step computes
    # under context-local settings of the calling thread (decimal context)
    for fam in ('upstream_lock', 'context_local'):
        for w in (2, 3) if tier == 'quick' else (1, 2, 3, 4):
            for pred in ('none', 'every_3rd') if tier == 'quick' else ('none', 'every_3rd', 'first_selected_late'):
                i += 1
                yield {'family': fam, 'workers': w, 'pred': pred, 'n': 40, 'idx': i, 'seed': seed, 'rep': 0,
                       'layout': 'single', 'yield_injection': False}
    # the row function raises for some selected rows: the worker reports it - and the row is still delivered, once
    for w in (1, 2, 3) if tier == 'quick' else (1, 2, 3, 4):
        for pred in ('none', 'every_3rd'):
            i += 1
            yield {'family': 'row_func_raises', 'workers': w, 'pred': pred, 'n': 60, 'idx': i, 'seed': seed, 'rep': 0,
                   'layout': 'single', 'yield_injection': False}
    # the row function RETURNS something (a flag, a count): what is delivered is still the row
    for w in (1, 2):
        i += 1
        yield {'family': 'row_func_returns_value', 'workers': w, 'pred': 'every_3rd', 'n': 17, 'idx': i, 'seed': seed, 'rep': 0,
               'layout': 'single', 'yield_injection': False}
    # two parallelize steps over the same resource in one flow (the second pool starts while the first is still busy)
    for w in (1, 2):
        i += 1
        yield {'family': 'two_parallelize_steps', 'workers': w, 'pred': 'none', 'n': 40, 'idx': i, 'seed': seed, 'rep': 0,
               'layout': 'single', 'yield_injection': False}
    # the row function starts a child process of its own (a nested pool / Process / subprocess helper)
    for w in (1, 2):
        i += 1
        yield {'family': 'row_func_spawns_child', 'workers': w, 'pred': 'none', 'n': 20, 'idx': i, 'seed': seed, 'rep': 0,
               'layout': 'single', 'yield_injection': False}
    # the default number of workers (num_processors=None) in a process that may run on ONE cpu only (taskset / cpuset)
    i += 1
    yield {'family': 'default_workers_one_cpu', 'workers': 0, 'pred': 'none', 'n': 40, 'idx': i, 'seed': seed, 'rep': 0,
           'layout': 'single', 'yield_injection': False}
    # the caller's process uses another multiprocessing start method (forkserver / spawn): a stand-alone program with a
    # module-level row function
    for method in ('forkserver', 'spawn'):
        i += 1
        yield {'family': 'start_method', 'method': method, 'workers': 2, 'pred': 'every_3rd', 'n': 90, 'idx': i, 'seed': seed,
               'rep': 0, 'layout': 'single', 'yield_injection': False}
    # rows far larger than a pipe buffer (64 KiB): several workers deliver at the same time, every row arrives whole
    for w in (2, 4) if tier == 'quick' else (1, 2, 3, 4):
        i += 1
        yield {'family': 'big_rows', 'workers': w, 'pred': 'none', 'n': 60, 'idx': i, 'seed': seed, 'rep': 0,
               'layout': 'single', 'yield_injection': False}
    for fam, secs in pauses:
        for w in (2, 3):
            i += 1
            yield {'family': fam, 'workers': w, 'pred': 'none' if fam == 'slow_row' else 'every_3rd', 'n': 40, 'idx': i,
                   'seed': seed, 'rep': 0, 'layout': 'single', 'yield_injection': False, 'pause_s': secs}


def _noop():
    pass


def predicate_for(name, n):
    if name == 'none':
        return None
    if name == 'first_occurrence':
        # a predicate with memory ("first row of each group"): it holds for a row iff asked about the rows in order, each
        # row exactly once
        seen = set()

        def first_occurrence(row):
            k = row['id'] % 1000 % 7
            if k in seen:
                return False
            seen.add(k)
            return True
        return first_occurrence
    if name == 'truthy_not_bool':
        # a predicate answers by truth value: a remainder (0 / 1 / 2), a text ('' / 'x'), None / an object
        return lambda row: [row['id'] % 3, '' if row['id'] % 2 else 'x', None if row['id'] % 5 else row][row['id'] % 3]
    return {'all_true': lambda row: True, 'all_false': lambda row: False,
            'every_3rd': lambda row: row['id'] % 3 == 0, 'only_last': lambda row: row['id'] % 1000 == n - 1,
            'first_selected_late': lambda row: row['id'] % 1000 >= (2 * n) // 3}[name]


def child_main(case, logpath, outpath):
    """Runs inside the forked child (own session)."""
    d = lab.df()
    n, w = case['n'], case['workers']
    labo = schedlab.Lab(logpath, case['family'], '%s:%s' % (case['seed'], case['idx']))
    schedlab.install(labo)
    if case.get('yield_injection'):
        install_yield_injection()
    pred = predicate_for(case['pred'], n)
    if case['family'] in ('slow_predicate_tail', 'slow_predicate') and pred is not None:
        inner = pred

        def pred(row):      # user-supplied predicate that is slow (for the tail of the stream / for every row)
            if case['family'] == 'slow_predicate' or row['id'] % 1000 >= (3 * n) // 4:
                time.sleep(0.003)
            return inner(row)

    pause = case.get('pause_s', 0)
    import threading
    userlock = threading.Lock()
    if case['family'] == 'context_local':
        import decimal
        decimal.getcontext().prec = 6
        decimal.getcontext().rounding = decimal.ROUND_HALF_UP

    def row_func(row):
        labo.log('apply', 'row_func', row.get('id'))
        if case['family'] == 'upstream_lock':
            labo.log('get', 'userlock', row.get('id'), 'call')
            with userlock:
                labo.log('get', 'userlock', row.get('id'), 'ret')
        if case['family'] == 'slow_row' and row.get('id') == n - 3:
            time.sleep(pause)
        if case['family'] == 'row_func_spawns_child' and row.get('id') % 5 == 0:
            import multiprocessing
            child = multiprocessing.Process(target=_noop)
            child.start()
            child.join()
        if case['family'] == 'row_func_raises' and row.get('id') % 7 == 0:
            raise ValueError('row function cannot handle row %r' % row.get('id'))
        row['_applied'] = row.get('_applied', 0) + 1
        row['_pid'] = os.getpid()
        if case['family'] == 'row_func_returns_value':
            return [True, 3, 'done'][row.get('id', 0) % 3]

    def rows_a():
        for i in range(n):
            if case['family'] == 'upstream_stall' and i == n // 2:
                time.sleep(pause)
            if case['family'] == 'upstream_lock':
                with userlock:
                    time.sleep(0.002)
            if case['family'] == 'context_local':
                import decimal
                yield {'id': i, 'v': 'a%d' % i, 'q': str(decimal.Decimal(i + 1) / decimal.Decimal(7))}
                continue
            if case['family'] == 'big_rows':
                yield {'id': i, 'v': 'a%d' % i, 'blob': ('%05d' % i) * 40000}
                continue
            yield {'id': i, 'v': 'a%d' % i}
    F = [{'name': 'id', 'type': 'integer'}, {'name': 'v', 'type': 'string'}, {'name': '_applied', 'type': 'integer'},
         {'name': '_pid', 'type': 'integer'}]
    if case['family'] == 'context_local':
        F = F + [{'name': 'q', 'type': 'string'}]
    if case['family'] == 'big_rows':
        F = F + [{'name': 'blob', 'type': 'string'}]
    desc_a = {'resources': [{'name': 'a', 'path': 'a.csv', 'schema': {'fields': F}}]}
    steps = [d.load((desc_a, [rows_a()]), strip=False)]
    sel = 'a'
    if case['layout'] == 'unselected_neighbour':
        steps.append(lab.source('b', F, [{'id': 1000 + i, 'v': 'b%d' % i} for i in range(5)]))
    elif case['layout'] == 'two_selected':
        steps.append(lab.source('b', F, [{'id': 1000 + i, 'v': 'b%d' % i} for i in range(n)]))
        sel = None
    if case['family'] == 'after_sort':
        steps.append(d.sort_rows('{id}'))
    if case['family'] == 'default_workers_one_cpu':
        os.sched_setaffinity(0, {sorted(os.sched_getaffinity(0))[-1]})
    steps.append(d.parallelize(row_func, num_processors=w or None, resources=sel, predicate=pred))
    if case['family'] == 'two_parallelize_steps':
        def second(row):
            time.sleep(0.002)
            row['v'] = row['v'] + '+2nd'
        steps.append(d.parallelize(second, num_processors=w, resources=sel))
    t0 = time.time()
    res = {'returned': False}
    try:
        with boot.quiet():
            results, dp, _ = d.Flow(*steps).results(on_error=None)
        if case['family'] == 'big_rows':
            for r_ in results[0]:
                if isinstance(r_, dict):
                    b_ = r_.get('blob')
                    r_['blob'] = 'whole' if b_ == ('%05d' % r_.get('id', -1)) * 40000 else 'not the blob of this row (%s, %d chars)' \
                        % (type(b_).__name__, len(b_) if isinstance(b_, str) else -1)
        res = {'returned': True, 'results': results, 'names': [r['name'] for r in dp.descriptor['resources']]}
    except Exception as e:
        c = getattr(e, 'cause', e)
        res = {'returned': True, 'error': '%s: %s' % (type(c).__name__, str(c)[:300])}
    res['elapsed'] = time.time() - t0
    import multiprocessing
    import threading
    res['active_children'] = len(multiprocessing.active_children())
    res['threads'] = [t.name for t in threading.enumerate() if t is not threading.main_thread() and not t.daemon]
    with open(outpath, 'w') as f:
        json.dump(res, f)


def install_yield_injection():
    """thorough: force a GIL hand-off at every statement boundary of parallelize.py in the parent's threads."""
    m = sys.monitoring
    tool = 4
    fn = boot.module('dataflows.processors.parallelize').__file__

    def cb(code, line):
        if code.co_filename != fn:
            return m.DISABLE
        time.sleep(0)
    try:
        m.use_tool_id(tool, 'verif-yield')
        m.register_callback(tool, m.events.LINE, cb)
        m.set_events(tool, m.events.LINE)
    except Exception:
        pass


START_METHOD_SCRIPT = r'''
import json, multiprocessing, sys
import dataflows as d


def mark(row):
    row['seen'] = True


def every_3rd(row):
    return row['id'] % 3 != 0


if __name__ == '__main__':
    multiprocessing.set_start_method(sys.argv[1])
    rows = [{'id': i, 'seen': False} for i in range(90)]
    res = d.Flow(rows, d.parallelize(mark, num_processors=int(sys.argv[2]), predicate=every_3rd)).results()[0][0]
    print('RESULT ' + json.dumps(res))
'''


def run_start_method(case):
    import subprocess
    counters = {'runs_checked': 0, 'events_logged': 0, 'rows_delivered': 0}
    cfg = {k: case[k] for k in ('family', 'method', 'workers', 'n')}
    with open('sm_prog.py', 'w') as f:
        f.write(START_METHOD_SCRIPT)
    try:
        p = subprocess.run([boot.PY, '-W', 'ignore', 'sm_prog.py', case['method'], str(case['workers'])], capture_output=True, text=True,
                           timeout=120, env=dict(os.environ, PYTHONPATH=boot.REPO))
    except subprocess.TimeoutExpired:
        return dict(nontrivial=False, violations=[], cov={}, counters=counters, inconclusive='start-method program timed out')
    line = next((ln for ln in p.stdout.splitlines() if ln.startswith('RESULT ')), None)
    if line is None:
        return dict(nontrivial=False, violations=[], cov={}, counters=counters,
                    inconclusive='start-method program gave no result: %s' % p.stderr[-300:])
    rows = json.loads(line[7:])
    counters['runs_checked'] += 1
    counters['rows_delivered'] += len(rows)
    viol = []
    ids = sorted(r['id'] for r in rows)
    if ids != list(range(90)):
        viol.append({'kind': 'exactly_once', 'mech': 'exactly_once', 'config': cfg,
                     'msg': '%r: delivered ids differ from the input: %d of 90 rows, lost %r' % (cfg, len(ids), sorted(set(range(90)) - set(ids))[:8])})
    else:
        bad = [r['id'] for r in rows if r['seen'] != (r['id'] % 3 != 0)]
        if bad:
            viol.append({'kind': 'applied_once', 'mech': 'applied_once', 'config': cfg,
                         'msg': '%r: rows %r.. were (not) passed through the row function against the predicate' % (cfg, bad[:6])})
    return dict(nontrivial=True, violations=viol, counters=counters,
                cov={'family_x_workers': {'start_method/%s/%d' % (case['method'], case['workers']): 1}, 'predicate_x_len': {},
                     'interleaving_signatures': {}, 'race_orders': {}}, sample={'config': cfg})


def run_case(case):
    if case['family'] == 'start_method':
        return run_start_method(case)
    counters = {'runs_checked': 0, 'events_logged': 0, 'rows_delivered': 0}
    cov = {'family_x_workers': {}, 'predicate_x_len': {}, 'interleaving_signatures': {}, 'race_orders': {}}
    viol = []
    n, w = case['n'], case['workers']
    cfg = {k: case[k] for k in ('family', 'workers', 'pred', 'n', 'layout', 'yield_injection')}
    logpath = os.path.abspath('events.log')
    outpath = os.path.abspath('out.json')
    sys.stdout.flush()
    pid = os.fork()
    excpath = os.path.abspath('thread_exc.log')
    if pid == 0:
        try:
            os.setsid()
            import threading

            def thread_died(args):
                # a thread of the run ended with an uncaught exception: recorded (an event, not a clock)
                with open(excpath, 'a') as f_:
                    f_.write('%s: %s: %s\n' % (getattr(args.thread, 'name', '?'), getattr(args.exc_type, '__name__', '?'),
                                               str(args.exc_value)[:200]))
            threading.excepthook = thread_died
            child_main(case, logpath, outpath)
        except BaseException as e:
            try:
                with open(outpath, 'w') as f:
                    json.dump({'returned': False, 'harness_error': repr(e)}, f)
            except Exception:
                pass
        finally:
            os._exit(0)
    # ---- parent: wait with quiescence detection --------------------------------------------------
    t0 = time.time()
    last_size, last_change = -1, time.time()
    status = None
    verdict_deadlock = None
    while True:
        wpid, st = os.waitpid(pid, os.WNOHANG)
        if wpid:
            status = st
            break
        try:
            size = os.path.getsize(logpath)
        except OSError:
            size = 0
        now = time.time()
        if size != last_size:
            last_size, last_change = size, now
        elif now - last_change > QUIET_S + case.get('pause_s', 0):
            ev = schedlab.read_log(logpath)
            alive, blocked = schedlab.blocked_actors(ev)
            # an actor whose process is gone (killed, zombie) does nothing any more: only the living ones count

            def living(pid_):
                try:
                    with open('/proc/%d/stat' % pid_) as f_:
                        return f_.read().rsplit(')', 1)[1].split()[0] not in ('Z', 'X')
                except OSError:
                    return False
            dead_ = {k_ for k_ in alive if not living(k_[0])}
            if dead_ and len(dead_) < len(alive):
                alive = {k_: v_ for k_, v_ in alive.items() if k_ not in dead_}
                blocked = {k_: v_ for k_, v_ in blocked.items() if k_ not in dead_}
            groups = {e['q'] for e in ev if e['q'].startswith('q_in#')}
            started = sum(1 for e in ev if e['op'] == 'start' and e['q'].startswith('proc#'))
            # a worker that has not logged its start yet (slow fork on a loaded machine) is not "blocked"
            if alive and len(blocked) == len(alive) and started >= case['workers'] * len(groups):
                verdict_deadlock = 'no event for %.0fs; every live actor is blocked in get: %s' % (
                    QUIET_S, sorted('%s@%s' % (e['role'], e['q']) for e in blocked.values()))
                break
        if now - t0 > WATCHDOG_S + 3 * case.get('pause_s', 0):
            break
        time.sleep(0.005)
    try:
        os.killpg(pid, signal.SIGKILL)
    except Exception:
        pass
    if status is None:
        try:
            os.waitpid(pid, 0)
        except Exception:
            pass

    def add(kind, msg, mech=None):
        if case['family'] == 'upstream_lock' and kind == 'deadlock' and 'userlock' in msg:
            mech = 'worker_forked_while_upstream_thread_holds_a_lock'
        if case['family'] == 'after_sort' and n > 10240 and kind in ('deadlock', 'run_failed', 'exactly_once', 'shutdown'):
            # the control case (same pipeline, no spill) is part of every run: only the spilled one may carry this tag
            mech = 'upstream_read_from_producer_thread/spilled_kvfile'
        viol.append({'kind': kind, 'mech': mech or kind, 'msg': '%r: %s' % (cfg, msg), 'config': cfg})
    ev = schedlab.read_log(logpath) if os.path.exists(logpath) else []
    counters['events_logged'] += len(ev)
    if verdict_deadlock:
        add('deadlock', verdict_deadlock + '; last events %r' % [(e['role'], e['op'], e['q'], e.get('item')) for e in ev[-8:]])
        return dict(nontrivial=True, violations=viol, cov=cov, counters=counters)
    if (status is None or not os.path.exists(outpath)) and os.path.exists(excpath) and os.path.getsize(excpath):
        # not a verdict from the clock alone: a thread the run depends on is known to have died, and the run never returned
        add('deadlock', 'a thread of the run died with an uncaught exception (%s) and the flow did not return (%.0fs)'
            % (open(excpath).read().strip().splitlines()[0][:250], WATCHDOG_S), 'thread_died_run_never_returned')
        return dict(nontrivial=True, violations=viol, cov=cov, counters=counters)
    if status is None or not os.path.exists(outpath):
        return dict(nontrivial=False, violations=viol, cov=cov, counters=counters,
                    inconclusive='watchdog: run neither finished nor quiescent after %.0fs (%d events)' % (WATCHDOG_S, len(ev)))
    res = json.load(open(outpath))
    if res.get('harness_error'):
        return dict(nontrivial=False, violations=viol, cov=cov, counters=counters,
                    inconclusive='harness error in child: %s' % res['harness_error'])
    if res.get('error'):
        add('run_failed', 'the flow raised: %s' % res['error'])
        return dict(nontrivial=True, violations=viol, cov=cov, counters=counters)
    counters['runs_checked'] += 1
    pred = predicate_for(case['pred'], n)
    ids_a = list(range(n))
    inputs = {'a': [{'id': i, 'v': 'a%d' % i} for i in ids_a]}
    par = ['a']
    if case['layout'] == 'unselected_neighbour':
        inputs['b'] = [{'id': 1000 + i, 'v': 'b%d' % i} for i in range(5)]
    elif case['layout'] == 'two_selected':
        inputs['b'] = [{'id': 1000 + i, 'v': 'b%d' % i} for i in range(n)]
        par = ['a', 'b']
    selected, bypass = [], []
    for name in par:
        for r in inputs[name]:
            (selected if (pred is None or pred(r)) else bypass).append(r['id'])
    got = dict(zip(res['names'], res['results']))
    if res['names'] != list(inputs):
        add('resources', 'resources %r expected %r' % (res['names'], list(inputs)))
    for name, rows_in in inputs.items():
        rows_out = got.get(name, [])
        counters['rows_delivered'] += len(rows_out)
        ids_in = sorted(r['id'] for r in rows_in)
        junk = [r for r in rows_out if not isinstance(r, dict)]
        if junk:
            add('exactly_once', 'resource %s: %d of the delivered items are not rows: %r' % (name, len(junk), junk[:3]))
            continue
        ids_out = sorted(r['id'] for r in rows_out)
        if ids_in != ids_out:
            lost = sorted(set(ids_in) - set(ids_out))[:6]
            dup = sorted({i for i in ids_out if ids_out.count(i) > 1})[:6]
            add('exactly_once', 'resource %s: delivered ids differ from input: lost %r duplicated %r (%d in, %d out)'
                % (name, lost, dup, len(ids_in), len(ids_out)))
            continue
        for r in rows_out:
            if case['family'] == 'two_parallelize_steps' and name in par:
                if r.get('_applied') != 1 or r.get('v') != 'a%d+2nd' % r['id']:
                    add('applied_once', 'row %r delivered as %r after two parallelize steps' % (r['id'], r))
                    break
                continue
            if case['family'] == 'big_rows' and r.get('blob') != 'whole':
                add('payload', 'row %r: a 200 KB cell was delivered as %r' % (r['id'], r.get('blob')))
                break
            if name in par and r['id'] in selected:
                if case['family'] == 'row_func_raises' and r['id'] % 7 == 0:
                    continue        # (delivered - judged above; the function gave up on it before touching it)
                if r.get('_applied') != 1:
                    add('applied_once', 'row %r delivered with _applied=%r' % (r['id'], r.get('_applied')))
                    break
            elif r.get('_applied') is not None or r.get('v') != ('%s%d' % (name, r['id'] % 1000)):
                add('untouched', 'unselected row %r was modified: %r' % (r['id'], r))
                break
        if case['family'] == 'context_local' and name == 'a':
            import decimal
            with decimal.localcontext() as ctx_:
                ctx_.prec = 6
                ctx_.rounding = decimal.ROUND_HALF_UP
                want = {i_: str(decimal.Decimal(i_ + 1) / decimal.Decimal(7)) for i_ in ids_in}
            bad = sorted(r['id'] for r in rows_out if r.get('q') != want[r['id']])
            counters['context_rows_compared'] = counters.get('context_rows_compared', 0) + len(rows_out)
            if bad:
                r0 = next(r for r in rows_out if r['id'] == bad[0])
                add('upstream_context', 'rows %r.. (%d of %d) were computed by the upstream step outside the settings of the '
                    'calling thread: row %d has q=%r, the sequential flow gives %r'
                    % (bad[:4], len(bad), len(rows_out), bad[0], r0.get('q'), want[bad[0]]),
                    'upstream_context_lost_in_producer_thread')
        if name not in par and [r['id'] for r in rows_out] != [r['id'] for r in rows_in]:
            add('order_unselected_resource', 'resource %s (not parallelised) changed order' % name)
    for kind, msg in schedlab.check_log(ev, w, selected, bypass):
        if kind == 'apply_count':
            add(kind, msg)          # observable at the user-supplied row function: part of the statement
        else:
            # queue conservation / end-marker counts and ordering / actor lifecycle describe the CURRENT queue protocol,
            # not the property: a different correct protocol would look different. Reported as diagnostics only
            cov.setdefault('protocol_diagnostics', {})[kind] = cov.setdefault('protocol_diagnostics', {}).get(kind, 0) + 1
    if res.get('active_children'):
        add('shutdown', '%d worker processes still alive after the flow returned' % res['active_children'])
    if res.get('threads'):
        add('shutdown', 'non-daemon threads still alive after the flow returned: %r' % res['threads'])
    sig, nev = schedlab.signature(ev)
    cov['interleaving_signatures'][sig] = 1
    cov['family_x_workers']['%s/%d' % (case['family'], w)] = 1
    cov['predicate_x_len']['%s/%d' % (case['pred'], n)] = 1
    # racing pair: last bypass put on q_internal vs first end-marker put on q_in; first q_out put vs last q_in row put
    def first(cond):
        return next((e['t'] for e in ev if cond(e)), None)

    def last(cond):
        return next((e['t'] for e in reversed(ev) if cond(e)), None)
    a = last(lambda e: e['q'].startswith('q_in#1') and e['op'] == 'put' and e.get('item') != 'END' and e.get('ph') == 'ret')
    b = first(lambda e: e['q'].startswith('q_out#1') and e['op'] == 'put' and e.get('ph') == 'ret')
    if a is not None and b is not None:
        cov['race_orders']['last_q_in_row_put %s first_q_out_put' % ('<' if a < b else '>')] = 1
    a = last(lambda e: e['q'].startswith('q_internal#1') and e['op'] == 'put' and e['role'] == 'producer' and e.get('ph') == 'ret')
    b = first(lambda e: e['q'].startswith('q_internal#1') and e['op'] == 'put' and e['role'] == 'fetcher' and e.get('ph') == 'ret')
    if a is not None and b is not None:
        cov['race_orders']['last_bypass_put %s first_fetcher_put' % ('<' if a < b else '>')] = 1
    nontrivial = (w >= 2 or bool(bypass)) and bool(selected)
    sample = {'config': cfg, 'events': nev, 'signature': sig, 'elapsed_s': round(res.get('elapsed', 0), 3),
              'log_head': [(e['role'], e['op'], e['q'], e.get('item'), e.get('ph')) for e in ev[:10]]}
    return dict(nontrivial=nontrivial, violations=viol, cov=cov, counters=counters, sample=sample)


def finalize(agg):
    sigs = agg.cov.get('interleaving_signatures', {})
    agg.extra['distinct_interleavings_observed'] = len(sigs)
    agg.cov['interleaving_signatures'] = {'count': len(sigs)}
