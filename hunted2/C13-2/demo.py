"""C13: load(limit_rows=n, cast_strategy=CAST_WITH_SCHEMA, on_error=ERRORS_DROP) does not stop at the
n-th row of the source: the limit is applied after the offending rows were dropped, so rows that lie
beyond the first n rows of the file are fetched and streamed to make up for the dropped ones.

PROCESSORS.md: "limit_rows - If provided, will limit the number of rows fetched from the source. Takes an
integer value which specifies how many rows of the source to stream."
"""
import os
import shutil
import sys
import tempfile

from dataflows import Flow, load

N_GOOD = 1000      # the schema is inferred from the first 1000 rows: 'a' is an integer
LIMIT = 1002


def main():
    cwd = os.getcwd()
    tmp = tempfile.mkdtemp()
    try:
        os.chdir(tmp)
        lines = ['%d,row%d' % (i, i) for i in range(N_GOOD)]
        lines += ['x,row1000', 'y,row1001']          # rows 1001 and 1002 of the file: offending
        lines += ['2000,row1002', '2001,row1003']    # rows 1003 and 1004: beyond the limit
        with open('t.csv', 'w') as f:
            f.write('a,b\n' + '\n'.join(lines) + '\n')

        seen = []

        def spy(rows):
            for row in rows:
                seen.append(dict(row))
                yield row

        Flow(load('t.csv', limit_rows=LIMIT, cast_strategy=load.CAST_WITH_SCHEMA, on_error=load.ERRORS_DROP),
             spy).process()
    finally:
        os.chdir(cwd)
        shutil.rmtree(tmp, ignore_errors=True)

    # the first LIMIT rows of the source, the two offending ones dropped
    expected_tail = [{'a': 998, 'b': 'row998'}, {'a': 999, 'b': 'row999'}]
    print('limit_rows=%d, on_error=drop; source rows 1001 and 1002 cannot be cast' % LIMIT)
    print('expected: only rows taken from the first %d source rows -> %d rows, the last ones %r'
          % (LIMIT, N_GOOD, expected_tail))
    print('observed: %d rows, the last ones %r' % (len(seen), seen[-4:]))
    beyond = [r for r in seen if r['b'] in ('row1002', 'row1003')]
    if beyond:
        print('VIOLATION: rows %r are rows 1003 and 1004 of the source, i.e. not among the first %d rows'
              % (beyond, LIMIT))
        sys.exit(1)
    print('OK')


if __name__ == '__main__':
    main()
