"""C03: dump_to_path(add_filehash_to_path=True) into a directory that already holds a
previous dump leaves the OLD datapackage.json in place, so load() of the package that was
"just written" returns the previous run's resources / schema / rows.
"""
import os
import shutil
import sys
import tempfile

from dataflows import Flow, dump_to_path, load, update_resource, set_type

workdir = tempfile.mkdtemp(prefix='c03-filehash-')
out = os.path.join(workdir, 'out')


def dump(rows, fmt):
    res, dp, _ = Flow(
        [dict(r) for r in rows],
        update_resource(-1, name='prices', path='prices.csv'),
        set_type('zone', type='string'),
        set_type('amount', type='integer'),
        dump_to_path(out, format=fmt, add_filehash_to_path=True),
    ).results()
    return res[0], dp.descriptor


def read_back():
    res, dp, _ = Flow(load(os.path.join(out, 'datapackage.json'))).results()
    return res[0], dp.descriptor


failed = False
try:
    for fmt in ('csv', 'json'):
        shutil.rmtree(out, ignore_errors=True)
        # run 1 (e.g. yesterday's run of a nightly pipeline)
        first_rows = [dict(zone='north', amount=1), dict(zone='south', amount=2)]
        dump(first_rows, fmt)
        # run 2 - same pipeline, same output directory, new data
        second_rows = [dict(zone='east', amount=100), dict(zone='west', amount=200), dict(zone='up', amount=300)]
        entered, dp_in = dump(second_rows, fmt)
        got, dp_out = read_back()
        print('format=%s' % fmt)
        print('  expected (rows that entered the 2nd dump_to_path):', entered)
        print('  observed (load of out/datapackage.json)          :', got)
        print('  path recorded by the dumper :', dp_in['resources'][0]['path'])
        print('  path in datapackage.json    :', dp_out['resources'][0]['path'])
        if got != entered:
            failed = True
finally:
    shutil.rmtree(workdir, ignore_errors=True)

if failed:
    print('VIOLATION: the package on disk after the second dump still describes the first run; '
          'datapackage.json was not rewritten')
    sys.exit(1)
print('no violation observed')
sys.exit(0)
