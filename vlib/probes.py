"""Boundary probes: identity package-level steps that check the stream invariant of C02 as rows
stream by, at every step boundary, and count rows per resource (conservation ledgers).

I(desc, streams) = #streams == #resource descriptors  AND  resource names unique  AND for every row:
keys subset of the declared field names AND every non-null value is accepted by the declared field
(tableschema Field.cast_value, constraints included).
"""
import copy
import datetime
import decimal

import tableschema
from tableschema.exceptions import CastError

NATIVE = {
    'integer': (int,), 'number': (int, float, decimal.Decimal), 'string': (str,), 'boolean': (bool,),
    'date': (datetime.date,), 'time': (datetime.time,), 'datetime': (datetime.datetime,), 'year': (int,),
    'array': (list, tuple), 'object': (dict,),
}


class Log:
    def __init__(self):
        self.boundaries = {}        # idx -> descriptor
        self.streams = {}           # idx -> number of row streams seen
        self.rows = {}              # (idx, stream no) -> rows seen
        self.violations = []        # dicts
        self.cells_cast = 0
        self.nonnative = {}         # (type, python type) -> n   (reported, not judged)

    def add(self, idx, kind, msg, **kw):
        if len(self.violations) < 20:
            self.violations.append(dict({'boundary': idx, 'kind': kind, 'msg': msg}, **kw))


def make_probe(idx, log):
    def probe(package):
        desc = copy.deepcopy(package.pkg.descriptor)
        log.boundaries[idx] = desc
        res_descs = desc.get('resources', [])
        names = [r.get('name') for r in res_descs]
        if len(set(names)) != len(names):
            log.add(idx, 'duplicate_resource_names', 'resource names not unique: %r' % names)
        for r in res_descs:
            sch = r.get('schema') or {}
            fnames = [f.get('name') for f in sch.get('fields', [])]
            pk = sch.get('primaryKey') or []
            pk = [pk] if isinstance(pk, str) else list(pk)
            missing = [k for k in pk if k not in fnames]
            if missing:
                log.add(idx, 'primary_key_undeclared', 'resource %r: primaryKey %r names %r which is not a declared field %r'
                        % (r.get('name'), pk, missing, fnames))
            for fk in sch.get('foreignKeys') or []:
                fkf = fk.get('fields') or []
                fkf = [fkf] if isinstance(fkf, str) else list(fkf)
                gone = [k for k in fkf if k not in fnames]
                if gone:
                    log.add(idx, 'foreign_key_undeclared', 'resource %r: foreignKeys fields %r name %r which is not a declared '
                            'field %r' % (r.get('name'), fkf, gone, fnames))
            if len(set(fnames)) != len(fnames):
                log.add(idx, 'duplicate_field_names', 'resource %r: field names not unique: %r' % (r.get('name'), fnames))
        yield package.pkg
        n = 0
        for res in package:
            yield _checked(idx, n, res, res_descs[n] if n < len(res_descs) else None, log)
            n += 1
        log.streams[idx] = n
        if n != len(res_descs):
            log.add(idx, 'stream_count', '%d row streams for %d resource descriptors %r' % (n, len(res_descs), names))
    return probe


def _checked(idx, n, res, rdesc, log):
    fields = None
    if rdesc is not None:
        try:
            fields = {f.name: f for f in tableschema.Schema(rdesc.get('schema', {})).fields}
        except Exception as e:
            log.add(idx, 'bad_schema', 'resource %r: schema unusable: %s' % (rdesc.get('name'), e))
    if rdesc is not None and getattr(res, 'res', None) is not None and res.res.name != rdesc.get('name'):
        log.add(idx, 'stream_order', 'row stream #%d belongs to %r, descriptor #%d is %r'
                % (n, res.res.name, n, rdesc.get('name')))
    count = 0
    flagged = set()
    for row in res:
        count += 1
        if fields is not None:
            for k, v in row.items():
                f = fields.get(k)
                if f is None:
                    if ('undeclared', k) not in flagged:
                        flagged.add(('undeclared', k))
                        log.add(idx, 'undeclared_field', 'resource %r row %d carries field %r not in schema %r'
                                % (rdesc.get('name'), count - 1, k, sorted(fields)), field=k)
                    continue
                if v is None:
                    continue
                log.cells_cast += 1
                try:
                    f.cast_value(v)
                except CastError:
                    if ('cast', k) not in flagged:
                        flagged.add(('cast', k))
                        log.add(idx, 'invalid_value', 'resource %r row %d field %r declared %s holds %r (%s)'
                                % (rdesc.get('name'), count - 1, k, f.type, v, type(v).__name__),
                                field=k, ftype=f.type, pytype=type(v).__name__)
                nat = NATIVE.get(f.type)
                if nat and (not isinstance(v, nat) or (f.type != 'boolean' and isinstance(v, bool))):
                    key = '%s<-%s' % (f.type, type(v).__name__)
                    log.nonnative[key] = log.nonnative.get(key, 0) + 1
        yield row
    log.rows[(idx, n)] = count


def interleave(steps, log, first=0):
    """steps: list of real step objects -> list with a probe after every one of them."""
    out = []
    for i, s in enumerate(steps):
        out.append(s)
        out.append(make_probe(first + i, log))
    return out
