"""C06 Row-wise pipelines stream with bounded look-ahead.

Stream meter: counting sources stamp every row with its ordinal (in `id`) and count rows PULLED; a
terminal sink records, for every DELIVERED row, look-ahead = pulled(source) - (ordinal + 1). The
verdict is growth-based: the same pipeline is run at N1 and N2 = 10 * N1 and the maximum look-ahead
must not grow (any constant is allowed, as the statement says).
"""
import copy
import io
import os

from vlib import boot, dsl, gen, lab

PROPERTY = 'C06'
LEVEL = 'exploration'
RULE = ('each non-buffering step kind alone and seeded compositions of 3..8 of them (field edits, set_type, '
        'validate, filter, unpivot, concatenate, printer, dump_to_path csv/json, stream, first-run checkpoint, user '
        'row/rows/package functions, update_*) over 1..3 metered sources (generator iterables with inference, and '
        '(descriptor, iterator) loads); every pipeline is run at N1=2000 and N2=20000 rows per source (thorough: '
        '+200000); distinct = (pipeline hash); non-trivial = >=1 delivery event at both sizes')
ASSUMPTIONS = [
    'buffering steps (sort_rows, join, duplicate, deduplicate, parallelize) are outside the statement; dump_to_sql is judged on its own (fixed write batches)',
    'look-ahead may be any constant: judged is L(N2) <= L(N1) + 2*steps and L(N2) < N2/4, for the maximum over '
    'all deliveries and over deliveries of rows with ordinal >= 200 separately',
    'in multi-source pipelines source j+1 may be pulled up to its inference sample before source j is delivered',
    'early_stop family: after the terminal consumer stops reading, no further pulls are allowed - except behind an '
    'observer that owes a complete capture (dump, stream, checkpoint, finalizer, printer: C05), which drains the rest '
    'without holding it',
]
REQUIRED_COUNTERS = ['delivery_events', 'pull_events']
BASE = 10 ** 7
CASE_TIMEOUT = 600


class Null(io.TextIOBase):
    def write(self, s):
        return len(s)

    def flush(self):
        pass

    def close(self):
        pass


STREAMING = sorted(n for n, o in dsl.OPS.items() if o.streaming and n not in dsl.BUFFERING
                   and n not in ('delete_resource', 'append_iterable', 'append_load'))


# observers that owe a COMPLETE capture of the stream at their position (C05): when a later step stops reading a resource
# they finish their capture on their own, so "nothing is pulled after the consumer stopped" does not apply to them
CAPTURING = ('dump_to_path', 'dump_to_zip', 'stream', 'checkpoint', 'finalizer', 'printer')


def gen_cases(tier, seed):
    for i, opn in enumerate(STREAMING):
        yield {'family': 'single', 'op': opn, 'idx': i, 'seed': seed}
    for i, fmt in enumerate(['excel', 'xlsx', 'zip_csv', 'zip_json']):
        yield {'family': 'single', 'op': 'dump_format', 'fmt': fmt, 'idx': 500 + i, 'seed': seed}
    n = {'quick': 40, 'thorough': 600}[tier]
    for i in range(n):
        yield {'family': 'composition', 'op': None, 'idx': 1000 + i, 'seed': seed}
    for i in range({'quick': 6, 'thorough': 60}[tier]):
        yield {'family': 'csv_file', 'op': None, 'idx': 5000 + i, 'seed': seed}
    # a terminal consumer that stops after 10 rows: nothing upstream may go on pulling the sources on its own
    for i, opn in enumerate(STREAMING):
        if opn != 'concatenate':        # single-source pipelines only
            yield {'family': 'early_stop', 'op': opn, 'idx': 7000 + i, 'seed': seed}
    # load(limit_rows=n): the rows after the n-th stay in the source
    for i in range({'quick': 4, 'thorough': 24}[tier]):
        yield {'family': 'limit_rows', 'op': 'load_limit_rows', 'idx': 8000 + i, 'seed': seed}
    # load((descriptor, iterators), resources=<selector>): the rows of the resources that are not selected stay where they are
    for i in range(2):
        yield {'family': 'tuple_selector', 'op': 'load_tuple_selector', 'idx': 8500 + i, 'seed': seed}
    # dump_to_sql writes in fixed batches: the rows read ahead of the delivered one are bounded by the batch, not by the stream
    for i in range(2):
        yield {'family': 'sql_dump_step', 'op': 'dump_to_sql', 'idx': 8580 + i, 'seed': seed}
    # sources(a, b): the second source is read when its turn comes, not while the first is streamed
    for i in range(2):
        yield {'family': 'sources_step', 'op': 'sources', 'idx': 8550 + i, 'seed': seed}
    # a data package whose resource is a JSON file (as dump_to_path(format='json') writes it) is read as it is delivered
    yield {'family': 'json_package', 'op': 'load_json_package', 'idx': 8600, 'seed': seed}
    # file sources whose look-ahead is a matter of BYTES held in memory before the first row is delivered: a text file in a
    # legacy encoding (larger than the 1 MiB the encoding probe samples), a GeoJSON file
    for i, kind_ in enumerate(['legacy_encoding_csv', 'geojson', 'sql_table', 'xlsx', 'csv_infer_python_types', 'csv_infer_strings']):
        yield {'family': 'file_source_memory', 'op': 'load_' + kind_, 'kind': kind_, 'idx': 8700 + i, 'seed': seed}
    # a step that finishes its resource on its own (dumper, printer, stream) in front of a concatenate of several resources
    for i, obs in enumerate(['dump_to_path', 'printer', 'stream', 'validate']):
        yield {'family': 'observer_then_concatenate', 'op': 'concatenate_after_' + obs, 'obs': obs, 'idx': 9000 + i, 'seed': seed}


def row_for(src, i, fields):
    row = {}
    for fn, ft in fields:
        if fn == 'id':
            row[fn] = (src + 1) * BASE + i
        elif ft == 'integer':
            row[fn] = (i * 7 + src) % 11
        elif ft == 'string':
            row[fn] = ['a', 'b', 'hello', 'x y'][i % 4]
        elif ft == 'number':
            row[fn] = [1.5, 2.25, -0.5][i % 3]
        elif ft == 'late':
            # null throughout the inference sample, values only much later
            row[fn] = None if (i < 700 or fn == 'znever') else 'late-%d' % (i % 3)
    return row


def run_case(case):
    rng = boot.rng(case['seed'], 'C06', case['idx'])
    d = lab.df()
    counters = {'delivery_events': 0, 'pull_events': 0}
    cov = {'step_lookahead': {}}
    viol = []
    sizes = [2000, 20000] + ([200000] if os.environ.get('VERIF_TIER') == 'thorough' and case['idx'] % 10 == 0 else [])
    if case['family'] == 'csv_file':
        return run_csv(case, rng, d, counters, cov, viol, sizes)
    if case['family'] == 'file_source_memory':
        return run_file_memory(case, rng, d, counters, cov, viol)
    if case['family'] in ('limit_rows', 'observer_then_concatenate', 'tuple_selector', 'json_package', 'sources_step', 'sql_dump_step'):
        return run_special(case, rng, d, counters, cov, viol, sizes)
    nsrc = rng.choice([1, 1, 2, 3]) if case['family'] == 'composition' else rng.choice([1, 2])
    tables = []
    for s in range(nsrc):
        fields = [['id', 'integer'], ['n', 'integer'], ['s', 'string'], ['m', 'integer']]
        if rng.random() < 0.5:
            fields.append(['q', 'number'])
        if rng.random() < 0.5:
            # a column that is null throughout the inference sample: later (zlate) or for the whole stream (znever)
            fields.append([rng.choice(['zlate', 'znever']), 'late'])
        tables.append({'name': 'r%d' % s, 'fields': fields, 'rows': [row_for(s, 0, fields)],
                       'kind': rng.choice(['iter', 'load'])})
    early = case['family'] == 'early_stop'
    if case['family'] == 'single' and case['op'] == 'dump_format':
        ops, length = ['validate'], 1
    elif early:
        ops, length = [case['op']], 1
        nsrc = 1
    elif case['family'] == 'single':
        ops = [case['op']]
        length = 1
    else:
        ops = STREAMING
        length = rng.randint(3, 8)
    tables, specs, _ = dsl.gen_program(rng, length=length, ops=ops, tables=tables)
    if case['family'] in ('single', 'early_stop') and not specs and not early:
        # op not applicable to this shape (e.g. concatenate with one source): widen the shape once
        tables.append(dict(copy.deepcopy(tables[0]), name='r%d' % len(tables)))
        tables, specs, _ = dsl.gen_program(rng, length=1, ops=ops, tables=tables)
    prog = dsl.render(tables, specs)
    nsrc = len(tables)

    def run_at(N):
        pulled = [0] * nsrc
        stats = {'max_initial': 0, 'max_steady': 0, 'deliveries': 0, 'max_next_source_ahead': 0}

        def source(j, t):
            def g():
                for i in range(N):
                    pulled[j] += 1
                    yield row_for(j, i, t['fields'])
            if t['kind'] == 'iter':
                return g()
            desc = {'resources': [{'name': t['name'], 'path': t['name'] + '.csv', 'schema': {'fields': [
                {'name': a, 'type': b if b != 'late' else 'string'} for a, b in t['fields']]}}]}
            return d.load((desc, [g()]), strip=False)

        def sink(package):
            yield package.pkg
            for res in package:
                def it(res=res):
                    for row in res:
                        if early and stats['deliveries'] >= 10:
                            return          # the consumer stops reading this resource
                        rid = row.get('id')
                        if isinstance(rid, int) and rid >= BASE:
                            j, seq = rid // BASE - 1, rid % BASE
                            la = pulled[j] - (seq + 1)
                            stats['deliveries'] += 1
                            if la > stats['max_initial']:
                                stats['max_initial'] = la
                            if seq >= 200 and la > stats['max_steady']:
                                stats['max_steady'] = la
                            if j + 1 < nsrc and pulled[j] < N and pulled[j + 1] > stats['max_next_source_ahead']:
                                stats['max_next_source_ahead'] = pulled[j + 1]
                        yield row
                yield it()
        env = dsl.Env('n%d' % N)
        steps = [source(j, t) for j, t in enumerate(tables)]
        for s in specs:
            if s['op'] == 'stream':
                steps.append(d.stream(Null()))
            elif s['op'] == 'printer':
                steps.append(d.printer(header_print=lambda *a: None, table_print=lambda *a: None))
            elif s['op'] == 'user':
                # only the shapes the framework accepts as steps (others are rejected: C01)
                steps.append(dsl.OPS['user'].build(dict(s, form='function' if s['form'] != 'lambda' else 'lambda'), env))
            else:
                steps.append(dsl.OPS[s['op']].build(s, env))
        if case.get('fmt'):
            f = case['fmt']
            steps.append(d.dump_to_zip('z_%d.zip' % N, format=f[4:]) if f.startswith('zip_')
                         else d.dump_to_path('x_%d' % N, format=f))
        steps.append(sink)
        with boot.quiet():
            d.Flow(*steps).process()
        stats['pulled'] = sum(pulled)
        if early and case['op'] not in CAPTURING:
            # rows pulled although the consumer had stopped: must stay bounded as well
            stats['max_initial'] = max(stats['max_initial'], pulled[0] - 10)
            stats['max_steady'] = stats['max_initial']
        return stats
    try:
        res = [run_at(N) for N in sizes]
    except Exception as e:
        c = getattr(e, 'cause', e)
        return dict(nontrivial=False, violations=[], cov=cov, counters=counters,
                    inconclusive='pipeline failed: %s: %s; %s' % (type(c).__name__, str(c)[:200], gen.render(prog, 400)))
    return judge(case, prog, specs, sizes, res, counters, cov, viol)


class _Enough(Exception):
    pass


def run_file_memory(case, rng, d, counters, cov, viol):
    """Peak of traced memory between opening the source and the delivery of its first row, for two file sizes."""
    import json as json_
    import tracemalloc
    kind = case['kind']
    sizes = {'legacy_encoding_csv': [25000, 100000], 'geojson': [1500, 6000], 'sql_table': [15000, 60000],
             'xlsx': [2000, 8000], 'csv_infer_python_types': [20000, 80000], 'csv_infer_strings': [20000, 80000]}[kind]
    by_position = kind in ('geojson', 'csv_infer_python_types', 'csv_infer_strings')
    peaks, fsizes, positions = [], [], []
    for N in [50] + sizes:          # (the first, tiny file only warms up imports and caches: not measured)
        if kind == 'legacy_encoding_csv':
            path = 'legacy_%d.csv' % N
            words = ['\u6771\u4eac\u90fd\u65b0\u5bbf\u533a\u897f\u65b0\u5bbf', '\u5927\u962a\u5e9c\u5927\u962a\u5e02\u5317\u533a\u6885\u7530',
                     '\u3053\u308c\u306f\u65e5\u672c\u8a9e\u306e\u30c6\u30ad\u30b9\u30c8\u3067\u3059',
                     '\u79c1\u306f\u5b66\u751f\u3067\u3059\u3002\u3088\u308d\u3057\u304f\u304a\u9858\u3044\u3057\u307e\u3059']
            with open(path, 'w', encoding='shift_jis', newline='') as f:
                f.write('id,address,note\n')
                for i in range(N):
                    f.write('%d,"%s","%s"\n' % (BASE + i, words[i % 4], words[(i + 1) % 4]))
        elif kind.startswith('csv_infer'):
            path = 'plain_%d.csv' % N
            with open(path, 'w', newline='') as f:
                f.write('id,n,s\n')
                for i in range(N):
                    f.write('%d,%d,v%d\n' % (BASE + i, i % 7, i % 5))
        elif kind == 'sql_table':
            import sqlite3
            path = os.path.abspath('src_%d.db' % N)
            con = sqlite3.connect(path)
            con.execute('create table t (id integer, s text, note text)')
            con.executemany('insert into t values (?, ?, ?)', ((BASE + i, 'v%d' % (i % 5), 'note %d for the row' % i) for i in range(N)))
            con.commit()
            con.close()
        elif kind == 'xlsx':
            import openpyxl
            path = 'book_%d.xlsx' % N
            wb = openpyxl.Workbook(write_only=True)
            ws = wb.create_sheet()
            ws.append(['id', 's', 'note'])
            for i in range(N):
                ws.append([BASE + i, 'v%d' % (i % 5), 'note %d for the row' % i])
            wb.save(path)
        else:
            path = 'features_%d.geojson' % N
            with open(path, 'w') as f:
                f.write('{"type": "FeatureCollection", "features": [\n')
                for i in range(N):
                    f.write(json_.dumps({'type': 'Feature', 'properties': {'id': BASE + i, 's': 'v%d' % (i % 5)},
                                         'geometry': {'type': 'Point', 'coordinates': [i % 90, i % 45]}}))
                    f.write(',\n' if i < N - 1 else '\n')
                f.write(']}\n')
        fsizes.append(os.path.getsize(path))
        delivered = [0]
        rpath = os.path.realpath(path)
        position = [None]

        def first_row(rows, rpath=rpath, position=position):
            for row in rows:
                delivered[0] += 1
                # where the reader of the file stands when the first row arrives (no descriptor open = read to its end)
                for fd in os.listdir('/proc/self/fd'):
                    try:
                        if os.path.realpath('/proc/self/fd/' + fd) == rpath:
                            for ln in open('/proc/self/fdinfo/' + fd):
                                if ln.startswith('pos:'):
                                    position[0] = max(position[0] or 0, int(ln.split()[1]))
                    except OSError:
                        pass
                raise _Enough()
            return
            yield
        first_row.__defaults__ = None
        first_row = (lambda f, a, b: (lambda rows: f(rows, a, b)))(first_row, rpath, position)
        if by_position and N != 50:
            positions.append(position)
        if not by_position:
            tracemalloc.start()
        try:
            with boot.quiet():
                src_ = d.load('sqlite:///' + path, table='t') if kind == 'sql_table' else d.load(path)
                if kind.startswith('csv_infer'):
                    src_ = d.load(path, infer_strategy={'csv_infer_python_types': d.load.INFER_PYTHON_TYPES,
                                                        'csv_infer_strings': d.load.INFER_STRINGS}[kind])
                d.Flow(src_, first_row).process()
        except Exception as e:
            if not isinstance(getattr(e, 'cause', e), _Enough):
                if not by_position:
                    tracemalloc.stop()
                return dict(nontrivial=False, violations=[], cov=cov, counters=counters,
                            inconclusive='load of the %s file failed: %s' % (kind, str(getattr(e, 'cause', e))[:200]))
        if N != 50:
            peaks.append(tracemalloc.get_traced_memory()[1] if not by_position else 0)
        else:
            fsizes.pop()
        if not by_position:
            tracemalloc.stop()
        counters['delivery_events'] += delivered[0]
        counters['pull_events'] += 1
        os.remove(path)
    label = case['op']
    for N, pk in zip(sizes, peaks):
        cov['step_lookahead']['%s@%d/peak_kib_before_first_row' % (label, N)] = pk // 1024
    prog = {'family': 'file_source_memory', 'kind': kind, 'file_bytes': fsizes, 'peak_bytes_before_first_row': peaks}
    # bounded look-ahead: what is held before the first row does not grow with the file (here: by less than half of what the
    # file grew by)
    if by_position:
        read = [fs if pos_[0] is None else pos_[0] for pos_, fs in zip(positions, fsizes)]
        prog['bytes_read_when_first_row_arrives'] = read
        if read[1] > fsizes[1] // 2:
            viol.append({'kind': 'lookahead_grows', 'mech': 'grows/%s' % label, 'program': prog,
                         'msg': 'when the first row is delivered %d of the %d bytes of the file have been read (%d of %d for the '
                         'smaller file); %r' % (read[1], fsizes[1], read[0], fsizes[0], prog)})
    elif kind in ('sql_table', 'xlsx'):
        # rows, not bytes, measure these sources: what is held before the first row must not grow by the rows added
        grew = peaks[1] - peaks[0]
        if grew > 2 * 2 ** 20 and grew > 50 * (sizes[1] - sizes[0]):
            viol.append({'kind': 'lookahead_grows', 'mech': 'grows/%s' % label, 'program': prog,
                         'msg': 'memory held before the first row is delivered grows with the source: %d KiB for %d rows, %d KiB for '
                         '%d rows; %r' % (peaks[0] // 1024, sizes[0], peaks[1] // 1024, sizes[1], prog)})
    elif fsizes[1] - fsizes[0] > 200 * 1024 and peaks[1] - peaks[0] > (fsizes[1] - fsizes[0]) // 2:
        viol.append({'kind': 'lookahead_grows', 'mech': 'grows/%s' % label, 'program': prog,
                     'msg': 'memory held before the first row is delivered grows with the file: %d KiB for a %d KiB file, %d KiB '
                     'for a %d KiB file; %r' % (peaks[0] // 1024, fsizes[0] // 1024, peaks[1] // 1024, fsizes[1] // 1024, prog)})
    return dict(nontrivial=True, violations=viol, cov=cov, counters=counters, sample=prog)


def run_special(case, rng, d, counters, cov, viol, sizes):
    fam = case['family']
    limit = rng.choice([1, 25, 150])
    via_tuple = rng.random() < 0.5
    prog = {'family': fam, 'limit_rows': limit, 'iterators_given_as': 'iterator' if via_tuple else 'list'} if fam == 'limit_rows' else \
        {'family': fam, 'observer': case.get('obs'), 'selected': ['a', 'b'][case['idx'] % 2]}
    res = []
    for N in sizes:
        pulled = [0, 0]
        stats = {'max_initial': 0, 'max_steady': 0, 'deliveries': 0, 'max_next_source_ahead': 0}

        def g(j, N=N, pulled=pulled):
            for i in range(N):
                pulled[j] += 1
                yield {'id': (j + 1) * BASE + i, 's': 'v%d' % (i % 5)}
        fl = [{'name': 'id', 'type': 'integer'}, {'name': 's', 'type': 'string'}]

        def sink(rows):
            for row in rows:
                stats['deliveries'] += 1
                # rows taken from ALL sources that have not arrived here (nothing in these pipelines drops rows)
                la = sum(pulled) - stats['deliveries']
                stats['max_initial'] = max(stats['max_initial'], la)
                if stats['deliveries'] > 200:
                    stats['max_steady'] = max(stats['max_steady'], la)
                yield row
        if fam == 'json_package':
            import json as json_
            with boot.quiet():
                d.Flow(({'id': BASE + i, 's': 'v%d' % (i % 5)} for i in range(N)), d.dump_to_path('jp_%d' % N, format='json')).process()
            data_path = os.path.realpath(os.path.join('jp_%d' % N, json_.load(open('jp_%d/datapackage.json' % N))['resources'][0]['path']))
            size = os.path.getsize(data_path)

            def bytes_read():
                # position of whoever has the data file open (the reader underneath load), in rows of average size
                best = None
                for fd in os.listdir('/proc/self/fd'):
                    try:
                        if os.path.realpath('/proc/self/fd/' + fd) == data_path:
                            for ln in open('/proc/self/fdinfo/' + fd):
                                if ln.startswith('pos:'):
                                    best = max(best or 0, int(ln.split()[1]))
                    except OSError:
                        pass
                # nobody holds the file open while its rows are being delivered: it has been read to its end already
                return size if best is None else best

            def mk_sink(N, size, stats, pulled):
                def sink_json(rows):
                    for row in rows:
                        stats['deliveries'] += 1
                        if stats['deliveries'] in (1, 100):
                            la = bytes_read() * N // size - stats['deliveries']
                            stats['max_initial'] = max(stats['max_initial'], la)
                            pulled[0] = max(pulled[0], bytes_read() * N // size)
                        yield row
                return sink_json
            steps = [d.load('jp_%d/datapackage.json' % N), mk_sink(N, size, stats, pulled)]
        elif fam == 'sql_dump_step':
            kw_ = {} if case['idx'] % 2 == 0 else {'batch_size': 50}
            steps = [d.load(({'resources': [{'name': 'a', 'path': 'a.csv', 'schema': {'fields': copy.deepcopy(fl)}}]}, [g(0)]), strip=False),
                     d.dump_to_sql({'t': {'resource-name': 'a'}}, engine='sqlite:///' + os.path.abspath('sq_%d.db' % N), **kw_), sink]
        elif fam == 'sources_step':
            def src_s(name, j):
                return d.load(({'resources': [{'name': name, 'path': name + '.csv', 'schema': {'fields': copy.deepcopy(fl)}}]},
                               [g(j)]), strip=False)
            import time as time_

            def mk_slow(sink_):
                def slow_sink(rows):
                    # (a consumer that takes its time: whoever reads ahead on its own has the time to do so)
                    for k_, row in enumerate(sink_(rows)):
                        if k_ % 400 == 0:
                            time_.sleep(0.002)
                        yield row
                return slow_sink
            slow_sink = mk_slow(sink)
            steps = [d.sources(src_s('a', 0), src_s('b', 1)) if case['idx'] % 2 == 0 else
                     d.sources(d.Flow(src_s('a', 0), d.add_field('z', 'integer', 1)), src_s('b', 1)), slow_sink]
        elif fam == 'tuple_selector':
            desc = {'resources': [{'name': 'a', 'path': 'a.csv', 'schema': {'fields': copy.deepcopy(fl)}},
                                  {'name': 'b', 'path': 'b.csv', 'schema': {'fields': copy.deepcopy(fl)}}]}
            steps = [d.load((desc, iter([g(0), g(1)])), resources=prog['selected'], strip=False), sink]
        elif fam == 'limit_rows':
            desc = {'resources': [{'name': 'r0', 'path': 'r0.csv', 'schema': {'fields': fl}}]}
            # (load does not take a bare generator: the iterators come as a list or as an iterator of iterators)
            src = d.load((desc, iter([g(0)])), limit_rows=limit) if via_tuple else d.load((desc, [g(0)]), limit_rows=limit)
            steps = [src, d.add_field('z', 'integer', 1), sink]
        else:
            obs = {'dump_to_path': lambda: d.dump_to_path('oc_%d' % N), 'stream': lambda: d.stream(Null()),
                   'printer': lambda: d.printer(header_print=lambda *a: None, table_print=lambda *a: None),
                   'validate': lambda: d.validate()}[case['obs']]()
            def src_(name, j):
                return d.load(({'resources': [{'name': name, 'path': name + '.csv', 'schema': {'fields': copy.deepcopy(fl)}}]},
                               [g(j)]), strip=False)
            steps = [src_('a', 0), src_('b', 1), obs,
                     d.concatenate({'id': [], 's': []}, target={'name': 'c', 'path': 'c.csv'}), sink]
        try:
            with boot.quiet():
                d.Flow(*steps).process()
        except Exception as e:
            c = getattr(e, 'cause', e)
            return dict(nontrivial=False, violations=[], cov=cov, counters=counters,
                        inconclusive='pipeline failed: %s: %s' % (type(c).__name__, str(c)[:200]))
        # what was read and never arrived counts, too (after the last delivery)
        stats['max_initial'] = max(stats['max_initial'], sum(pulled) - stats['deliveries'])
        stats['max_steady'] = max(stats['max_steady'], sum(pulled) - stats['deliveries'])
        stats['pulled'] = sum(pulled)
        res.append(stats)
    return judge(case, prog, [], sizes, res, counters, cov, viol)


def judge(case, prog, specs, sizes, res, counters, cov, viol):
    slack = 2 * (len(specs) + 1)
    label = case['op'] or ('composition' if case['family'] == 'composition' else 'csv_file')
    if case.get('fmt'):
        label = 'dump_' + case['fmt']
    for N, r in zip(sizes, res):
        counters['delivery_events'] += r['deliveries']
        counters['pull_events'] += r['pulled']
        cov['step_lookahead']['%s@%d' % (label, N)] = max(cov['step_lookahead'].get('%s@%d' % (label, N), 0),
                                                         r['max_initial'])

    def add(kind, msg, mech):
        viol.append({'kind': kind, 'mech': mech, 'msg': '%s; pipeline %s' % (msg, gen.render(prog, 1000)),
                     'program': prog})
    ops = sorted({s['op'] for s in specs}) if specs else [label]
    for a, b, Na, Nb in zip(res, res[1:], sizes, sizes[1:]):
        for key in ('max_initial', 'max_steady', 'max_next_source_ahead'):
            # (json_package measures in read-buffer units: the smaller file fits into one buffer, so only the share of the
            # larger file that was read ahead is judged)
            if (b[key] > a[key] + slack and case['family'] != 'json_package') or b[key] >= Nb / 4:
                add('lookahead_grows', '%s grows with the input: %d at N=%d, %d at N=%d'
                    % (key, a[key], Na, b[key], Nb), 'grows/%s' % ('+'.join(ops) if len(ops) == 1 else 'composition'))
                break
    nontrivial = all(r['deliveries'] > 0 for r in res)
    return dict(nontrivial=nontrivial, violations=viol, cov=cov, counters=counters,
                sample={'program': prog, 'sizes': sizes,
                        'lookahead': [{k: r[k] for k in ('max_initial', 'max_steady', 'max_next_source_ahead')}
                                      for r in res]})


def run_csv(case, rng, d, counters, cov, viol, sizes):
    """load() of a CSV file: pulls are counted on the iterator tabulator hands to load (library boundary)."""
    import csv
    ldm = boot.module('dataflows.processors.load')
    extra = rng.sample(['add_field', 'filter_rows', 'validate', 'printer', 'dump_to_path', 'set_type_n'], rng.randint(0, 3))
    prog = {'source': 'csv file', 'steps': extra}
    res = []
    for N in sizes:
        path = 'big_%d.csv' % N
        with open(path, 'w', newline='') as f:
            w = csv.writer(f)
            w.writerow(['id', 'n', 's'])
            for i in range(N):
                w.writerow([BASE + i, i % 7, 'v%d' % (i % 5)])
        pulled = [0]
        stats = {'max_initial': 0, 'max_steady': 0, 'deliveries': 0, 'max_next_source_ahead': 0}
        RealStream = ldm.Stream

        class CountingStream(RealStream):
            def iter(self, *a, **kw):
                for row in super().iter(*a, **kw):
                    pulled[0] += 1
                    yield row

        def sink(rows):
            for row in rows:
                seq = int(row['id']) % BASE
                la = pulled[0] - (seq + 1)
                stats['deliveries'] += 1
                stats['max_initial'] = max(stats['max_initial'], la)
                if seq >= 2000:
                    stats['max_steady'] = max(stats['max_steady'], la)
                yield row
        steps = [d.load(path)]
        for e in extra:
            steps.append({'add_field': lambda: d.add_field('z', 'integer', 1),
                          'filter_rows': lambda: d.filter_rows(condition=lambda row: int(row['n']) != 3),
                          'validate': lambda: d.validate(),
                          'printer': lambda: d.printer(header_print=lambda *a: None, table_print=lambda *a: None),
                          'dump_to_path': lambda: d.dump_to_path('csvdump_%d' % N),
                          'set_type_n': lambda: d.set_type('n', type='number')}[e]())
        steps.append(sink)
        ldm.Stream = CountingStream
        try:
            with boot.quiet():
                d.Flow(*steps).process()
        finally:
            ldm.Stream = RealStream
        stats['pulled'] = pulled[0]
        res.append(stats)
        os.unlink(path)
    return judge(case, prog, [{'op': e} for e in extra], sizes, res, counters, cov, viol)
