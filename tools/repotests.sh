#!/bin/bash
# repotests.sh : run the repository's own suite on a scratch worktree of /repo HEAD (+ uncommitted diff), hooks off
wt=/tmp/rt-$$
git -C /repo worktree add -q --detach $wt HEAD || exit 3
trap 'git -C /repo worktree remove --force '$wt' 2>/dev/null; rm -rf '$wt'' EXIT
git -C /repo diff | git -C $wt apply 2>/dev/null
(cd $wt && env -u DATAFLOWS_VERIF PYTHONPATH=$wt /venv/bin/python -m pytest -q -p no:cacheprovider -n 8 --timeout=900 tests 2>&1 | tail -${1:-6})
