"""C19: two resources whose paths differ only in their extension are dumped into ONE data file.

A source data package holds  data/cities.csv  and  data/cities.json  (different tables, different
names, different paths - a perfectly valid package).  dump_to_path() forces every resource to the
output format by replacing the path suffix, so both resources are written to out/data/cities.csv:
the second overwrites the first.  The descriptor, written afterwards, still lists both resources,
each with its own size and hash - so the descriptor's presence does not mean that the files it
lists exist with the recorded size and hash.
"""
import hashlib
import json
import os
import shutil
import sys
import tempfile

from dataflows import Flow, load, dump_to_path


def verify(out):
    """What a consumer that trusts the completion marker would do."""
    problems = []
    with open(os.path.join(out, 'datapackage.json'), encoding='utf-8') as f:
        dp = json.load(f)
    for res in dp['resources']:
        path = os.path.join(out, res['path'])
        if not os.path.exists(path):
            problems.append('%s: listed file %s is missing' % (res['name'], res['path']))
            continue
        with open(path, 'rb') as f:
            data = f.read()
        if res.get('bytes') != len(data):
            problems.append('%s: %s recorded bytes=%r, file has %d bytes'
                            % (res['name'], res['path'], res.get('bytes'), len(data)))
        if res.get('hash') != hashlib.md5(data).hexdigest():
            problems.append('%s: %s recorded hash=%s, file has md5=%s'
                            % (res['name'], res['path'], res.get('hash'), hashlib.md5(data).hexdigest()))
    return dp, problems


def main():
    work = tempfile.mkdtemp(prefix='c19-demo-')
    try:
        src = os.path.join(work, 'src')
        out = os.path.join(work, 'out')
        os.makedirs(os.path.join(src, 'data'))
        with open(os.path.join(src, 'data', 'cities.csv'), 'w', newline='') as f:
            f.write('city,population\r\nparis,2100000\r\nlyon,520000\r\nnice,340000\r\n')
        with open(os.path.join(src, 'data', 'cities.json'), 'w') as f:
            json.dump([{'city': 'paris', 'mayor': 'A'}, {'city': 'lyon', 'mayor': 'B'}], f)
        with open(os.path.join(src, 'datapackage.json'), 'w') as f:
            json.dump({
                'name': 'cities',
                'resources': [
                    {'name': 'population', 'path': 'data/cities.csv', 'format': 'csv',
                     'profile': 'tabular-data-resource',
                     'schema': {'fields': [{'name': 'city', 'type': 'string'},
                                           {'name': 'population', 'type': 'integer'}]}},
                    {'name': 'mayors', 'path': 'data/cities.json', 'format': 'json',
                     'profile': 'tabular-data-resource',
                     'schema': {'fields': [{'name': 'city', 'type': 'string'},
                                           {'name': 'mayor', 'type': 'string'}]}},
                ]}, f)

        Flow(load(os.path.join(src, 'datapackage.json')), dump_to_path(out)).process()

        dp, problems = verify(out)
        files = sorted(os.path.relpath(os.path.join(d, f), out) for d, _, fs in os.walk(out) for f in fs)
        print('expected: datapackage.json present => every listed file exists with the recorded size and hash')
        print('          (2 resources, 2 distinct source paths => 2 data files)')
        print('observed: files in the fresh output directory:', files)
        print('          listed paths:', [(r['name'], r['path'], r.get('bytes'), r.get('hash')) for r in dp['resources']])
        for p in problems:
            print('          MISMATCH', p)
        if problems:
            print('VIOLATION: the descriptor is present but lists a file whose size/hash are not the recorded ones '
                  '(the data of resource "population" is lost)')
            return 1
        print('no violation observed')
        return 0
    finally:
        shutil.rmtree(work, ignore_errors=True)


if __name__ == '__main__':
    sys.exit(main())
