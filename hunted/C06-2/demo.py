"""C06: load() of the documented XML / Excel-XML formats reads the whole source before row 1.

The same table is written as CSV and as XML.  The last step of the flow looks, when it is handed
row number 1, at how far the process has read into the source file (offset of the open file
descriptor, Linux /proc).  For CSV that offset is a constant (inference sample + read buffers),
whatever the file size.  For XML (and Excel-XML) it is the file size: every row of the source was
pulled - and is held in memory - before the first one is delivered.
"""
import os
import shutil
import sys
import tempfile

from dataflows import Flow, load

WIDTH = 60


def write_csv(path, n):
    with open(path, 'w') as f:
        f.write('a,b\n')
        for i in range(n):
            f.write('%d,%s\n' % (i, 'x' * WIDTH))


def write_xml(path, n):
    with open(path, 'w') as f:
        f.write('<rows>\n')
        for i in range(n):
            f.write('<row><a>%d</a><b>%s</b></row>\n' % (i, 'x' * WIDTH))
        f.write('</rows>\n')


def write_excel_xml(path, n):
    with open(path, 'w') as f:
        f.write('<?xml version="1.0"?>\n<Workbook><Worksheet><Table>\n')
        f.write('<Row><Cell><Data>a</Data></Cell><Cell><Data>b</Data></Cell></Row>\n')
        for i in range(n):
            f.write('<Row><Cell><Data>%d</Data></Cell><Cell><Data>%s</Data></Cell></Row>\n' % (i, 'x' * WIDTH))
        f.write('</Table></Worksheet></Workbook>\n')


def offset_of(path):
    path = os.path.realpath(path)
    best = None
    for fd in os.listdir('/proc/self/fd'):
        try:
            if os.path.realpath(os.readlink('/proc/self/fd/' + fd)) == path:
                best = max(best or 0, os.lseek(int(fd), 0, os.SEEK_CUR))
        except (OSError, ValueError):
            pass
    return best


def run(path, **options):
    seen = {}

    def sink(rows):
        for i, row in enumerate(rows):
            if i == 0:
                seen['offset'] = offset_of(path)
            yield row
        seen['rows'] = i + 1

    Flow(load(path, **options), sink).process()
    return seen['offset'], os.path.getsize(path), seen['rows']


if __name__ == '__main__':
    if not os.path.isdir('/proc/self/fd'):
        print('needs Linux /proc')
        sys.exit(2)
    tmp = tempfile.mkdtemp(dir='.')
    violated = False
    try:
        print('bytes of the source consumed at the moment row #1 is delivered')
        print('expected: a constant that does not grow with the file (sample + buffers), as for CSV')
        for fmt, writer, options in (('csv', write_csv, {}),
                                     ('xml', write_xml, {}),
                                     ('excel-xml', write_excel_xml, dict(format='excel-xml'))):
            results = []
            for n in (3000, 30000):
                path = os.path.join(tmp, 'data_%d.%s' % (n, 'xml' if fmt != 'csv' else 'csv'))
                writer(path, n)
                offset, size, rows = run(path, **options)
                assert rows == n, (fmt, rows, n)
                results.append((n, offset, size))
                os.unlink(path)
            # no open descriptor any more: the parser has read the file to its end and closed it
            results = [(n, size if offset is None else offset, size, offset is None) for n, offset, size in results]
            print('observed %-9s: ' % fmt + '; '.join(
                '%d rows: %d of %d bytes%s' % (n, offset, size, ' (file already closed)' if closed else '')
                for n, offset, size, closed in results))
            (_, o1, s1, _), (_, o2, s2, _) = results
            if fmt == 'csv':
                assert o1 < s1 and o2 < s2 and o2 <= 2 * o1, 'the baseline is expected to stream'
            elif o2 == s2 and o2 > 5 * o1:
                violated = True
    finally:
        shutil.rmtree(tmp, ignore_errors=True)
    if violated:
        print('VIOLATION: load() of XML / Excel-XML pulls the complete source (all rows) before delivering '
              'the first row; the read-ahead grows with the size of the data')
        sys.exit(1)
    print('no violation observed')
    sys.exit(0)
